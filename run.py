#!/venv/bin/python
"""Launcher (kept outside the package so no module is loaded twice)."""
import os
import sys

sys.path.insert(0, os.path.dirname(os.path.abspath(__file__)))
from simcheck.cli import main  # noqa: E402

if __name__ == '__main__':
    import faulthandler
    import signal
    faulthandler.register(signal.SIGUSR1, all_threads=True)     # kill -USR1 <pid> dumps all stacks
    sys.exit(main())
