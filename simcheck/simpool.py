"""SimPool: a deterministic, single-threaded simulation of multiprocessing.Pool.

The *real* stdlib `Pool` methods (imap, imap_unordered, map, map_async,
starmap, apply, chunking, lazy task generation) and the *real* result classes
(IMapIterator and its re-ordering buffer, IMapUnorderedIterator, MapResult,
ApplyResult) run unchanged. What is replaced is everything nondeterministic:
worker processes, the two pipes, the three handler threads and every blocking
wait. A blocking wait *drives the event loop* of the simulator; which enabled
event happens next is decided through the decision tape (`Tape.choose`).

Events: feed / take(w) / finish(w) / deliver, see DESIGN.md section 2.2.
"""
import collections
import multiprocessing
import os
import threading
import multiprocessing.pool as mpp
import pickle
from multiprocessing.reduction import ForkingPickler

RUN, CLOSE, TERMINATE = mpp.RUN, mpp.CLOSE, mpp.TERMINATE

MODES = ('timed', 'uniform', 'pct', 'lifo', 'fifo')
FAULT_KINDS = ('delay', 'stall', 'slow_worker', 'start_skew', 'tiny_inqueue',
               'result_latency', 'idle_recycle', 'oversubscribe', 'cpu_count',
               'poison_row')

# originals, captured at import (before any patching)
_ORIG_POOL_CLASS = mpp.Pool
_ORIG_THREADPOOL_CLASS = mpp.ThreadPool
_ORIG_MP_POOL = multiprocessing.Pool
_ORIG_CPU_COUNT = multiprocessing.cpu_count


class SimDeadlock(RuntimeError):
    """The caller waits for a result while no simulator event is enabled."""


class SimStepLimit(SimDeadlock):
    """Bounded liveness: the call did not return within the step bound of the run (20 000
    simulator events, against at most a few hundred needed by any generated workload).
    Reported like a deadlock: class `no-return`."""


ACTIVE_SIM = None          # the simulator bound by Installed (or None)
_RealEvent, _RealCondition = threading.Event, threading.Condition
_RealRLock = threading.RLock
_RealSemaphore, _RealBoundedSemaphore = threading.Semaphore, threading.BoundedSemaphore


def _created_by_sut(depth=2):
    """Was the object constructed directly by code of the package under test?"""
    import sys
    try:
        fn = sys._getframe(depth).f_code.co_filename
    except ValueError:
        return False
    root = _sut_root()
    return bool(root) and fn.startswith(root) and (os.sep + 'tests' + os.sep) not in fn


def _sut_root():
    import sys
    m = sys.modules.get('bycycle')
    return os.path.dirname(os.path.realpath(m.__file__)) + os.sep if m is not None else ''


def _can_drive():
    sim = ACTIVE_SIM
    return sim if (sim is not None and not sim.in_step and not sim.in_worker) else None


class SimAwareEvent(_RealEvent):
    """threading.Event for code under test: a caller waiting for an event that a pool callback
    will set lets simulator events happen instead of blocking for real. Events created by
    anything else (threading internals, the harness) behave exactly like the real class."""

    def __init__(self):
        super().__init__()
        self._from_sut = _created_by_sut()

    def wait(self, timeout=None):
        if self._from_sut:
            sim = _can_drive()
            while sim is not None and not self.is_set():
                if not sim.step():
                    break
        return super().wait(timeout)


class SimAwareCondition(_RealCondition):
    def __init__(self, lock=None):
        super().__init__(lock)
        self._from_sut = _created_by_sut()
        self._sim_notified = False

    def notify(self, n=1):
        self._sim_notified = True
        super().notify(n)

    def notify_all(self):
        self._sim_notified = True
        super().notify_all()

    def wait(self, timeout=None):
        if self._from_sut:
            sim = _can_drive()
            if sim is not None:
                self._sim_notified = False
                while not self._sim_notified:
                    if not sim.step():
                        break
                if self._sim_notified:
                    return True
        return super().wait(timeout)


class SimAwareSemaphore(_RealSemaphore):
    def __init__(self, value=1):
        super().__init__(value)
        self._from_sut = _created_by_sut()

    def acquire(self, blocking=True, timeout=None):
        if self._from_sut and blocking:
            sim = _can_drive()
            while sim is not None and self._value == 0:
                if not sim.step():
                    break
        return super().acquire(blocking, timeout)

    __enter__ = acquire


class SimAwareBoundedSemaphore(_RealBoundedSemaphore):
    def __init__(self, value=1):
        super().__init__(value)
        self._from_sut = _created_by_sut()

    def acquire(self, blocking=True, timeout=None):
        if self._from_sut and blocking:
            sim = _can_drive()
            while sim is not None and self._value == 0:
                if not sim.step():
                    break
        return super().acquire(blocking, timeout)

    __enter__ = acquire


class _SimCondition:
    """Stand-in for threading.Condition on result objects: wait() drives the loop."""

    def __init__(self, sim, what, poll_on_enter=False):
        self._sim = sim
        self._what = what
        self._notified = False
        self._poll_on_enter = poll_on_enter

    def __enter__(self):
        # (Future.done() / running() look at the state under this condition: polling callers
        # must see progress, see _SimEvent.is_set)
        if self._poll_on_enter:
            self._sim.poll()
        return self

    def __exit__(self, *exc):
        return False

    def acquire(self, *a, **k):
        return True

    def release(self):
        pass

    def notify(self, n=1):
        self._notified = True

    notify_all = notify

    def wait(self, timeout=None):
        self._notified = False
        self._sim.note_blocked(self._what)
        self._sim.drive(lambda: self._notified, self._what)
        return True

    def wait_for(self, predicate, timeout=None):
        self._sim.drive(predicate, self._what)
        return True


class _SimEvent:
    """Stand-in for threading.Event on ApplyResult / MapResult."""

    def __init__(self, sim, what):
        self._sim = sim
        self._what = what
        self._flag = False

    def is_set(self):
        # a caller that polls (`while not r.ready(): sleep(...)`) must see progress: each
        # unsuccessful poll lets one simulator event happen
        if not self._flag:
            self._sim.poll()
        return self._flag

    def set(self):
        self._flag = True

    def clear(self):
        self._flag = False

    def wait(self, timeout=None):
        if not self._flag:
            self._sim.note_blocked(self._what)
            self._sim.drive(lambda: self._flag, self._what)
        return self._flag


class _SimCache(dict):
    """Pool._cache: when a result object registers itself, give it simulator waits."""

    def __init__(self, sim, pool):
        super().__init__()
        self._sim = sim
        self._pool = pool

    def __setitem__(self, job, result):
        self._pool._job_ordinal[job] = len(self._pool._job_ordinal)
        what = 'pool%d/job%d' % (self._pool._ordinal, self._pool._job_ordinal[job])
        if hasattr(result, '_cond'):
            result._cond = _SimCondition(self._sim, what)
        if hasattr(result, '_event'):
            result._event = _SimEvent(self._sim, what)
        super().__setitem__(job, result)


class _SimTaskQueue:
    """Pool._taskqueue: put() hands a task sequence to the simulated task handler."""

    def __init__(self, sim, pool):
        self._sim = sim
        self._pool = pool
        self.items = collections.deque()

    def put(self, item):
        if item is None:
            return
        self.items.append(item)
        self._sim.logev('submit', self._pool._ordinal)
        self._sim.background('submit')


class _Worker:
    __slots__ = ('wid', 'speed', 'state', 'task', 'free_at', 'finish_at', 'started_seq',
                 'completed', 'blocked_until', 'initialized', 'proc')

    def __init__(self, wid, speed, free_at):
        self.wid = wid
        self.speed = speed
        self.state = 'idle'
        self.task = None
        self.free_at = free_at
        self.finish_at = 0.0
        self.started_seq = 0
        self.completed = 0
        self.blocked_until = 0
        self.initialized = False
        self.proc = None


class _WorkerProcess:
    """A simulated worker backed by a real forked process (cfg['workers'] == 'forked'): forked
    when the pool (or a replacement worker) is created, like the real Pool does, so that it
    sees the parent's module state of *that moment* and nothing it does afterwards is visible
    to the parent or to other workers. It is parked on a pipe and runs exactly one task when
    the scheduler fires its `finish` event - who runs when is still decided by the tape."""

    def __init__(self, pool):
        import os
        sim = pool._sim
        req_r, req_w = os.pipe()
        res_r, res_w = os.pipe()
        pid = os.fork()
        if pid == 0:
            code = 0
            try:
                os.close(req_w)
                os.close(res_r)
                # (inherited copies of other workers' pipe ends are left alone: processes are removed
                # by kill, not by EOF, and closing by number would race with threads of the code
                # under test that create or close pools at the same moment)
                sim.pools = []                # this process only drives pools it creates itself
                sim.in_worker += 1            # call seams stay quiet; nested pools raise in daemonic workers
                sim.worker_daemonic = pool._daemonic_workers
                import sys as _sys
                _sys.settrace(None)
                from . import pristine
                if pool._initializer is not None:
                    pool._initializer(*pool._initargs)
                while True:
                    try:
                        msg = pristine._read_msg(req_r)
                    except EOFError:
                        break
                    pristine._write_msg(res_w, _run_task(pool, msg))
            except BaseException:
                import traceback
                import sys as _s
                print('simulated worker process failed:\n' + traceback.format_exc(), file=_s.__stderr__)
                code = 1
            finally:
                os._exit(code)
        os.close(req_r)
        os.close(res_w)
        self.pid, self._w, self._r = pid, req_w, res_r

    def run(self, blob):
        from . import pristine
        pristine._write_msg(self._w, blob)
        try:
            return pristine._read_msg(self._r)
        except EOFError:
            raise RuntimeError('simulated worker process %d died while running a task' % self.pid)

    def _close_fds(self):
        import os
        for fd in (self._w, self._r):
            try:
                os.close(fd)
            except OSError:
                pass

    def close(self):
        import os
        import signal
        self._close_fds()
        try:                     # (other forked processes may hold copies of the pipe ends)
            os.kill(self.pid, signal.SIGKILL)
        except OSError:
            pass
        try:
            os.waitpid(self.pid, 0)
        except OSError:
            pass


def _run_task(pool, blob):
    """What multiprocessing.pool.worker does for one task: unpickle, run, pickle the result."""
    job_, i, func, args, kwds = pool._loads(blob)
    try:
        result = (True, func(*args, **kwds))
    except Exception as e:
        if pool._wrap_exception and func is not mpp._helper_reraises_exception:
            e = mpp.ExceptionWithTraceback(e, e.__traceback__)
        result = (False, e)
    try:
        return pool._dumps((job_, i, result))
    except Exception as e:
        wrapped = mpp.MaybeEncodingError(e, result[1])
        return pool._dumps((job_, i, (False, wrapped)))


class SimPool(mpp.Pool):
    """multiprocessing.pool.Pool with simulated workers, pipes, handlers and waits."""

    _wrap_exception = True

    def __init__(self, processes=None, initializer=None, initargs=(),
                 maxtasksperchild=None, context=None, *, sim, use_pickle=True, daemonic_workers=None):
        # mirror the attribute set the real class relies on
        self._pool = []
        self._state = mpp.INIT
        self._sim = sim
        self._use_pickle = use_pickle
        # Pool workers are daemonic; threads and executor workers are not
        self._daemonic_workers = bool(use_pickle) if daemonic_workers is None else daemonic_workers
        if sim.in_worker and sim.worker_daemonic:
            raise AssertionError('daemonic processes are not allowed to have children')
        self._ordinal = len(sim.pools)
        self._job_ordinal = {}
        self._ctx = context
        self._taskqueue = _SimTaskQueue(sim, self)
        self._change_notifier = None
        self._cache = _SimCache(sim, self)
        self._maxtasksperchild = maxtasksperchild
        self._initializer = initializer
        self._initargs = initargs

        if processes is None:
            processes = sim.cpu_count()
        if processes < 1:
            raise ValueError("Number of processes must be at least 1")
        if maxtasksperchild is not None:
            if not isinstance(maxtasksperchild, int) or maxtasksperchild <= 0:
                raise ValueError("maxtasksperchild must be a positive int or None")
        if initializer is not None and not callable(initializer):
            raise TypeError('initializer must be a callable')
        if not isinstance(processes, int):
            # the real class fails in range(processes)
            raise TypeError("'%s' object cannot be interpreted as an integer"
                            % type(processes).__name__)
        self._processes = processes

        # simulated transport
        self._inq = collections.deque()
        self._outq = collections.deque()
        self._cur = None            # (iterator, set_length, last_task)
        self._feeder_time = sim.now
        self._rh_time = sim.now
        self._next_wid = 0
        self._t0 = sim.now
        self._n_fed = 0
        self._n_delivered = 0
        self._completion_order = []
        self._delivery_order = []
        for _ in range(processes):
            self._pool.append(self._new_worker())
        sim.pools.append(self)
        sim.seam_hits += 1
        sim.stats['pools'] += 1
        sim.logev('pool', self._ordinal, processes)
        self._state = RUN

    # -- lifecycle -----------------------------------------------------------
    def _new_worker(self, delay=0.0):
        sim = self._sim
        wid = self._next_wid
        self._next_wid += 1
        speed = sim.worker_speed(wid)
        free_at = sim.now + delay + sim.start_skew(wid)
        w = _Worker(wid, speed, free_at)
        if self._use_pickle and sim.cfg.get('workers') == 'forked':
            w.proc = _WorkerProcess(self)
            w.initialized = True
            sim.stats['forked_worker_processes'] += 1
        return w

    def __del__(self):
        pass

    def __repr__(self):
        return '<SimPool #%d state=%s workers=%d>' % (self._ordinal, self._state, len(self._pool))

    def close(self):
        if self._state == RUN:
            self._state = CLOSE
            self._sim.logev('close', self._ordinal)

    def terminate(self):
        with self._sim._big_lock:
            self._terminate()

    def _terminate(self):
        if self._state != TERMINATE:
            self._sim.background('terminate')
            self._state = TERMINATE
            self._sim.logev('terminate', self._ordinal, len(self._inq), len(self._outq),
                            sum(1 for w in self._pool if w.state == 'busy'))
            self._sim.pool_finished(self)
            self._inq.clear()
            self._outq.clear()
            self._taskqueue.items.clear()
            self._cur = None
            for w in self._pool:
                w.state = 'dead'
                w.task = None
                if w.proc is not None:
                    w.proc.close()
                    w.proc = None

    def join(self):
        if self._state == RUN:
            raise ValueError("Pool is still running")
        elif self._state not in (CLOSE, TERMINATE):
            raise ValueError("In unknown state")
        if self._state == CLOSE:
            self._sim.drive(lambda: not self._sim.enabled_events(only=self), 'join', deadlock_ok=True)
            self._sim.pool_finished(self)

    def __reduce__(self):
        raise NotImplementedError(
            'pool objects cannot be passed between processes or pickled')

    # -- serialisation across the simulated process boundary -------------------
    def _dumps(self, obj):
        if not self._use_pickle:
            return obj
        return bytes(ForkingPickler.dumps(obj))

    def _loads(self, blob):
        if not self._use_pickle:
            return blob
        return pickle.loads(blob)


class Sim:
    """One simulation run: owns the tape, the clock, the event log and all pools."""

    def __init__(self, cfg, tape):
        self.cfg = dict(cfg)
        self.mode = cfg.get('mode', 'fifo')
        self.faults = dict(cfg.get('faults', {}))
        self.tape = tape
        self.pools = []
        self.now = 0.0
        self.steps = 0
        self.seq = 0
        self._inw = {}                    # thread ident -> depth (the code under test may drive from several threads)
        self._ins = {}
        self.worker_daemonic = True
        self._big_lock = _RealRLock()     # threads started by the code under test may all drive the loop
        self.log = []
        self.stats = collections.Counter()
        self.seam_hits = 0
        self.step_cap = cfg.get('step_cap', 20000)
        self.makespans = []
        self._pct_prio = {}
        self._pct_low = 0
        self._pct_changes = set(cfg.get('pct_changes', ()))
        self.blocked_probe = None

    # `in_worker` / `in_step` describe the *calling thread*: is it currently executing a simulated
    # worker's task / a simulator event?
    @property
    def in_worker(self):
        return self._inw.get(threading.get_ident(), 0)

    @in_worker.setter
    def in_worker(self, v):
        self._inw[threading.get_ident()] = v

    @property
    def in_step(self):
        return self._ins.get(threading.get_ident(), 0)

    @in_step.setter
    def in_step(self, v):
        self._ins[threading.get_ident()] = v

    # -- configuration -------------------------------------------------------
    def cpu_count(self):
        self.stats['cpu_count_calls'] += 1
        if 'cpu_count' in self.faults:
            self.stats['fault.cpu_count'] += 1
        return int(self.cfg.get('cpu_count', 4))

    def worker_speed(self, wid):
        speeds = self.faults.get('slow_worker')
        if speeds:
            s = speeds[wid % len(speeds)]
            if s != 1:
                self.stats['fault.slow_worker'] += 1
            return float(s)
        return 1.0

    def start_skew(self, wid):
        skews = self.faults.get('start_skew')
        if skews:
            s = skews[wid % len(skews)]
            if s:
                self.stats['fault.start_skew'] += 1
            return float(s)
        return 0.0

    def logev(self, *ev):
        self.log.append(ev)

    # -- the loop --------------------------------------------------------------
    def note_blocked(self, what):
        """Caller is about to block: probe whether a later index was already delivered."""
        self.stats['blocking_waits'] += 1
        for p in self.pools:
            for res in p._cache.values():
                if getattr(res, '_unsorted', None):
                    self.stats['probe.blocked_behind_later_result'] += 1
                    return

    def drive(self, until, why, deadlock_ok=False):
        if self.in_step:
            # a blocking wait issued from inside a simulated worker / callback
            self.stats['nested_waits'] += 1
        while not until():
            if not self.step():
                if until():
                    return          # (another driving thread of the code under test got there first)
                if deadlock_ok:
                    return
                self.logev('deadlock', why)
                raise SimDeadlock('caller blocked on %s and no event is enabled' % why)

    def poll(self):
        """One event on behalf of a polling caller (never from inside an event)."""
        if self.in_step or self.in_worker:
            return
        self.stats['polls'] += 1
        self.step()

    def background(self, why):
        """At an API boundary the handler threads / workers may run ahead of the caller."""
        maxk = int(self.cfg.get('bg_steps', 0))
        if maxk <= 0 or self.in_step:
            return
        k = self.tape.choose(maxk + 1, 'bg:' + why)
        for _ in range(k):
            if not self.step():
                break

    def pool_finished(self, pool):
        if getattr(pool, '_span_done', False):
            return
        pool._span_done = True
        self.makespans.append(self.now - pool._t0)
        order = pool._completion_order
        if order and order != sorted(order):
            self.stats['probe.completion_order_permuted'] += 1
        dorder = pool._delivery_order
        if dorder and dorder != sorted(dorder):
            self.stats['probe.delivery_order_permuted'] += 1

    def enabled_events(self, only=None):
        evs = []
        for p in self.pools:
            if only is not None and p is not only:
                continue
            if p._state == TERMINATE:
                continue
            cap = self.faults.get('tiny_inqueue') or self.cfg.get('inq_cap', 8)
            if (p._cur is not None or p._taskqueue.items) and len(p._inq) < cap:
                evs.append(('feed', p, None))
            idle = [w for w in p._pool if w.state == 'idle']
            if p._inq and idle:
                for w in idle:
                    evs.append(('take', p, w))
            for w in p._pool:
                if w.state == 'busy':
                    evs.append(('finish', p, w))
            if p._outq:
                evs.append(('deliver', p, None))
        return evs

    def _event_time(self, ev):
        kind, p, w = ev
        if kind == 'feed':
            return p._feeder_time
        if kind == 'take':
            return max(w.free_at, p._inq[0][1])
        if kind == 'finish':
            return w.finish_at
        return max(p._rh_time, p._outq[0][1])

    @staticmethod
    def _ev_key(ev):
        kind, p, w = ev
        return (p._ordinal, ('feed', 'take', 'finish', 'deliver').index(kind),
                -1 if w is None else w.wid)

    def _select(self, evs):
        mode = self.mode
        evs.sort(key=self._ev_key)
        if len(evs) == 1:
            return evs[0]
        if mode == 'timed':
            times = [self._event_time(e) for e in evs]
            tmin = min(times)
            cands = [e for e, t in zip(evs, times) if t <= tmin + 1e-12]
            if len(cands) == 1:
                return cands[0]
            return cands[self.tape.choose(len(cands), 'tie')]
        # untimed modes: workers blocked by a stall/recycle fault are skipped while
        # anything else can happen
        free = [e for e in evs if e[2] is None or e[2].blocked_until <= self.steps]
        if free:
            evs = free
        else:
            self.stats['clock_jumps'] += 1
        if len(evs) == 1:
            return evs[0]
        if mode == 'uniform':
            return evs[self.tape.choose(len(evs), 'ev')]
        if mode == 'pct':
            if self.steps in self._pct_changes:
                self._pct_low -= 1
                best = max(evs, key=lambda e: self._prio(e))
                self._pct_prio[self._actor(best)] = self._pct_low
                self.stats['pct_priority_changes'] += 1
            return max(evs, key=lambda e: (self._prio(e), [-x for x in self._ev_key(e)]))
        if mode == 'lifo':
            for kind in ('feed', 'take'):
                c = [e for e in evs if e[0] == kind]
                if c:
                    return c[0]
            c = [e for e in evs if e[0] == 'finish']
            if c:
                return max(c, key=lambda e: e[2].started_seq)
            return evs[0]
        # fifo
        for kind in ('feed', 'take'):
            c = [e for e in evs if e[0] == kind]
            if c:
                return c[0]
        c = [e for e in evs if e[0] == 'finish']
        if c:
            return min(c, key=lambda e: e[2].started_seq)
        return evs[0]

    @staticmethod
    def _actor(ev):
        kind, p, w = ev
        if kind in ('take', 'finish'):
            return (p._ordinal, 'w', w.wid)
        return (p._ordinal, kind)

    def _prio(self, ev):
        a = self._actor(ev)
        if a not in self._pct_prio:
            self._pct_prio[a] = self.tape.choose(1000, 'prio') + 1
        return self._pct_prio[a]

    def step(self):
        with self._big_lock:
            return self._step()

    def _step(self):
        evs = self.enabled_events()
        if not evs:
            return False
        self.steps += 1
        if self.steps > self.step_cap:
            raise SimStepLimit('more than %d simulator steps' % self.step_cap)
        ev = self._select(evs)
        kind, p, w = ev
        if self.mode == 'timed':
            t = self._event_time(ev)
            if t > self.now:
                self.now = t
        else:
            self.now += 1.0
        self.in_step += 1
        try:
            getattr(self, '_do_' + kind)(p, w)
        finally:
            self.in_step -= 1
        return True

    # -- events ------------------------------------------------------------------
    def _jitter(self, label):
        # multiplicative jitter 0.5 .. 1.5 in 1/64 steps, drawn through the tape
        return 0.5 + self.tape.choose(65, label) / 64.0

    def _do_feed(self, p, _w):
        if p._cur is None:
            taskseq, set_length = p._taskqueue.items.popleft()
            p._cur = [iter(taskseq), set_length, None]
        it, set_length, last = p._cur
        p._feeder_time = max(p._feeder_time, self.now) + 0.02
        try:
            task = next(it)
        except StopIteration:
            if set_length:
                idx = last[1] if last else -1
                set_length(idx + 1)
            p._cur = None
            self.logev('feed-end', p._ordinal)
            return
        p._cur[2] = task
        job, idx = task[:2]
        try:
            blob = p._dumps(task)
        except Exception as e:  # same handling as Pool._handle_tasks
            try:
                p._cache[job]._set(idx, (False, e))
            except KeyError:
                pass
            self.logev('feed-unpicklable', p._ordinal, p._job_ordinal.get(job), idx)
            return
        p._inq.append((blob, self.now, job, idx))
        p._n_fed += 1
        if 'tiny_inqueue' in self.faults:
            self.stats['fault.tiny_inqueue'] += 1
        self.logev('feed', p._ordinal, p._job_ordinal.get(job), idx)

    def _do_take(self, p, w):
        blob, _t, job, idx = p._inq.popleft()
        w.task = (blob, job, idx)
        w.state = 'busy'
        self.seq += 1
        w.started_seq = self.seq
        if not w.initialized:
            w.initialized = True
            if p._initializer is not None:
                self.in_worker += 1
                try:
                    p._initializer(*p._initargs)
                finally:
                    self.in_worker -= 1
        if self.mode == 'timed':
            size = len(blob) if isinstance(blob, (bytes, bytearray)) else 1000
            service = self.cfg.get('base_ms', 10.0) * (1.0 + size / 16000.0)
            service *= w.speed * self._jitter('svc')
            d = self.faults.get('delay')
            if d and self.tape.chance(d['p'], 100, 'delay?'):
                service *= self.tape.pick(d['mult'], 'delay-mult')
                self.stats['fault.delay'] += 1
            w.finish_at = self.now + service
            s = self.faults.get('stall')
            if s and self.tape.chance(s['p'], 100, 'stall?'):
                w.finish_at += self.tape.pick(s['ms'], 'stall-ms')
                self.stats['fault.stall'] += 1
        else:
            s = self.faults.get('stall')
            if s and self.tape.chance(s['p'], 100, 'stall?'):
                w.blocked_until = self.steps + self.tape.pick(s['steps'], 'stall-steps')
                self.stats['fault.stall'] += 1
        self.logev('take', p._ordinal, w.wid, p._job_ordinal.get(job), idx)

    def _do_finish(self, p, w):
        blob, job, idx = w.task
        if w.proc is not None:
            rblob = w.proc.run(blob)
            ok = p._loads(rblob)[2][0]
        else:
            self.in_worker += 1
            saved_daemonic = self.worker_daemonic
            self.worker_daemonic = p._daemonic_workers
            w.state = 'running'         # a nested pool inside this task may drive the loop re-entrantly
            try:
                rblob = _run_task(p, blob)
            finally:
                self.in_worker -= 1
                self.worker_daemonic = saved_daemonic
            ok = p._loads(rblob)[2][0] if p._use_pickle else rblob[2][0]
        lat = 0.0
        rl = self.faults.get('result_latency')
        if rl and self.mode == 'timed':
            lat = self.tape.pick(rl['ms'], 'rlat')
            if lat:
                self.stats['fault.result_latency'] += 1
        p._outq.append((rblob, self.now + lat, job, idx))
        p._completion_order.append((p._job_ordinal.get(job), idx))
        w.task = None
        w.state = 'idle'
        w.completed += 1
        w.free_at = self.now
        self.stats['tasks_run'] += 1
        self.logev('finish', p._ordinal, w.wid, p._job_ordinal.get(job), idx, ok)
        recycle = False
        if p._maxtasksperchild and w.completed >= p._maxtasksperchild:
            recycle = True
        ir = self.faults.get('idle_recycle')
        if ir and self.tape.chance(ir['p'], 100, 'recycle?'):
            recycle = True
            self.stats['fault.idle_recycle'] += 1
        if recycle:
            k = p._pool.index(w)
            if w.proc is not None:
                w.proc.close()
                w.proc = None
            nw = p._new_worker(delay=self.cfg.get('respawn_ms', 30.0))
            nw.blocked_until = self.steps + 3
            p._pool[k] = nw
            self.logev('recycle', p._ordinal, w.wid, nw.wid)

    def _do_deliver(self, p, _w):
        rblob, _t, job, idx = p._outq.popleft()
        p._rh_time = max(p._rh_time, self.now) + 0.01
        job_, i, obj = p._loads(rblob)
        p._delivery_order.append((p._job_ordinal.get(job), idx))
        p._n_delivered += 1
        self.logev('deliver', p._ordinal, p._job_ordinal.get(job), idx)
        try:
            p._cache[job_]._set(i, obj)
        except KeyError:
            pass

    # -- summary -------------------------------------------------------------------
    def finish_run(self):
        for p in self.pools:
            self.pool_finished(p)
            for w in p._pool:
                if getattr(w, 'proc', None) is not None:
                    w.proc.close()
                    w.proc = None

    def schedule_signature(self):
        """Abstract interleaving: the sequence of (event kind, job, index) with worker ids dropped."""
        return tuple((e[0],) + tuple(e[2:]) if e[0] in ('take', 'finish') else e
                     for e in self.log if e[0] in ('feed', 'take', 'finish', 'deliver', 'terminate'))


class Installed:
    """Context manager binding every Pool / cpu_count name reachable from bycycle
    (and the multiprocessing entry points) to the simulator."""

    def __init__(self, sim):
        self.sim = sim
        self._saved = []

    def _factory(self, use_pickle=True):
        sim = self.sim

        # a class, not a function: stdlib code refers to `Pool._get_tasks`, and user code
        # may subclass or isinstance-check the name it imported
        class Pool(SimPool):
            def __init__(self, processes=None, initializer=None, initargs=(),
                         maxtasksperchild=None, context=None):
                SimPool.__init__(self, processes, initializer, initargs, maxtasksperchild,
                                 context, sim=sim, use_pickle=use_pickle)
        Pool.__qualname__ = 'Pool'
        return Pool

    def _set(self, obj, name, value):
        self._saved.append((obj, name, getattr(obj, name)))
        setattr(obj, name, value)

    def __enter__(self):
        import sys
        import os
        sim = self.sim
        pool_factory = self._factory(True)
        thread_factory = self._factory(False)

        def ThreadPool(processes=None, initializer=None, initargs=()):
            return thread_factory(processes, initializer, initargs)

        def cpu_count():
            return sim.cpu_count()

        self._set(mpp, 'Pool', pool_factory)
        self._set(mpp, 'ThreadPool', ThreadPool)
        self._set(multiprocessing, 'Pool', pool_factory)
        self._set(multiprocessing, 'cpu_count', cpu_count)
        self._set(os, 'cpu_count', cpu_count)
        if hasattr(os, 'process_cpu_count'):
            self._set(os, 'process_cpu_count', cpu_count)
        import queue as _queue
        orig_get = _queue.Queue.get

        def sim_get(q, block=True, timeout=None):
            # a caller collecting results through a queue.Queue fed by pool callbacks: while the
            # queue is empty, let simulator events happen instead of blocking for real
            if block and not sim.in_step and not sim.in_worker:
                while q.empty():
                    if not sim.step():
                        break       # nothing simulated can fill it (real threads may): real wait
            return orig_get(q, block, timeout)

        self._set(_queue.Queue, 'get', sim_get)
        self._set(threading, 'Event', SimAwareEvent)
        self._set(threading, 'Condition', SimAwareCondition)
        self._set(threading, 'Semaphore', SimAwareSemaphore)
        self._set(threading, 'BoundedSemaphore', SimAwareBoundedSemaphore)
        global ACTIVE_SIM
        self._prev_active = ACTIVE_SIM
        ACTIVE_SIM = sim
        from . import simexec
        binds, exec_map = simexec.bindings(sim)
        for obj, attr, repl in binds:
            self._set(obj, attr, repl)
        for name, mod in sorted(sys.modules.items()):
            if mod is None or not (name == 'bycycle' or name.startswith('bycycle.')):
                continue
            for attr, val in sorted(vars(mod).items(), key=lambda kv: kv[0]):
                if _same(val, _ORIG_POOL_CLASS) or _same(val, _ORIG_MP_POOL):
                    self._set(mod, attr, pool_factory)
                elif _same(val, _ORIG_THREADPOOL_CLASS):
                    self._set(mod, attr, ThreadPool)
                elif isinstance(val, type) and id(val) in exec_map:
                    self._set(mod, attr, exec_map[id(val)])
                elif _same(val, _ORIG_CPU_COUNT) or _same(val, _ORIG_OS_CPU_COUNT):
                    self._set(mod, attr, cpu_count)
        return self

    def __exit__(self, *exc):
        global ACTIVE_SIM
        ACTIVE_SIM = getattr(self, '_prev_active', None)
        for obj, name, val in reversed(self._saved):
            setattr(obj, name, val)
        self._saved = []
        return False


import os as _os
import types as _types
_ORIG_OS_CPU_COUNT = _os.cpu_count


def _same(val, orig):
    if val is orig:
        return True
    return (isinstance(val, _types.MethodType) and isinstance(orig, _types.MethodType)
            and val.__func__ is orig.__func__ and val.__self__ is orig.__self__)
