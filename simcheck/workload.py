"""Workload generation: signals and option sets, as JSON-able *specs*.

A spec is what goes into the replay file; `build_*` turns it into live objects.
All randomness comes from the `random.Random` handed in (the workload stream).
"""
import copy

import numpy as np

FS_CHOICES = (100, 128, 200, 250)


def thorough():
    """Deeper bounds for the thorough tier (plans are self-contained, so replay files do not
    depend on the tier)."""
    import os
    return os.environ.get('VERIF_TIER') == 'thorough'


def gen_band(rng, long=False):
    """Sampling rate, band and length shared by all signals of one array."""
    fs = rng.choice(FS_CHOICES)
    f0 = rng.choice((6, 8, 10, 12, 15, 20))
    lo = round(f0 * rng.choice((0.6, 0.7, 0.75, 0.8)), 2)
    hi = round(f0 * rng.choice((1.25, 1.3, 1.4, 1.5)), 2)
    n_cyc = rng.randint(14, 30) if long else rng.randint(9, 18)
    T = int(n_cyc * fs / f0)
    return {'fs': fs, 'f0': f0, 'f_range': [lo, hi], 'T': T}


def gen_signal_spec(rng, band, idx=0):
    """One analysable signal: dominant rhythm inside the band, bursty AM, harmonics, noise.

    `idx` enters frequency, phase and amplitude so that the rows of an array are
    pairwise different and any permutation / mis-pairing changes some table.
    """
    f0 = band['f0']
    f = round(f0 * (1 + rng.uniform(-0.12, 0.12)), 3)
    a = round(rng.uniform(0.8, 2.5), 3)
    comps = [[f, a, round(rng.uniform(0, 6.283), 3)]]
    if rng.random() < 0.5:   # a harmonic: makes cycles asymmetric
        comps.append([round(2 * f, 3), round(a * rng.uniform(0.1, 0.35), 3),
                      round(rng.uniform(0, 6.283), 3)])
    if rng.random() < 0.4:   # slow drift outside the band
        comps.append([round(f0 * rng.uniform(0.05, 0.2), 3), round(a * rng.uniform(0.2, 0.8), 3),
                      round(rng.uniform(0, 6.283), 3)])
    am = None
    if rng.random() < 0.7:   # amplitude modulation -> bursts
        am = [round(f0 * rng.uniform(0.04, 0.15), 3), round(rng.uniform(0.4, 0.95), 3),
              round(rng.uniform(0, 6.283), 3)]
    return {'comps': comps, 'am': am,
            'noise_sd': round(rng.choice((0.0, 0.05, 0.1, 0.2, 0.35)) * a, 4),
            'noise_seed': rng.randrange(1 << 30),
            'dc': round(rng.choice((0, 0, 0.5, -1.0)), 2),
            'tag': idx}


def build_signal(spec, band):
    T, fs = band['T'], band['fs']
    if spec.get('flat'):
        return np.zeros(T)
    t = np.arange(T) / fs
    sig = np.zeros(T)
    for k, (f, a, ph) in enumerate(spec['comps']):
        c = a * np.sin(2 * np.pi * f * t + ph)
        if k == 0 and spec.get('am'):
            fa, depth, pha = spec['am']
            c = c * (1 - depth * 0.5 * (1 + np.sin(2 * np.pi * fa * t + pha)))
        sig += c
    if spec.get('noise_sd'):
        g = np.random.Generator(np.random.PCG64(spec['noise_seed']))
        sig += spec['noise_sd'] * g.standard_normal(T)
    sig += spec.get('dc', 0)
    return sig


def _val(rng, palette, lo=0.05, hi=0.95):
    """A value from the usual palette, or (30 %) an arbitrary two-decimal value in range."""
    if rng.random() < 0.3:
        return round(rng.uniform(lo, hi), 2)
    return rng.choice(palette)


def gen_thresholds(rng, method, shorthand=False):
    """A valid threshold dict for `method` (None = use defaults)."""
    if method == 'cycles':
        full = {'amp_fraction_threshold': _val(rng, (0.0, 0.1, 0.2, 0.3), 0.0, 0.5),
                'amp_consistency_threshold': _val(rng, (0.2, 0.4, 0.5, 0.6), 0.1, 0.8),
                'period_consistency_threshold': _val(rng, (0.3, 0.5, 0.6, 0.7), 0.1, 0.8),
                'monotonicity_threshold': _val(rng, (0.5, 0.6, 0.7, 0.8), 0.3, 0.9),
                'min_n_cycles': rng.choice((1, 2, 3, 4, 5))}
    else:
        full = {'burst_fraction_threshold': _val(rng, (0.3, 0.5, 0.8, 1), 0.1, 1.0),
                'min_n_cycles': rng.choice((1, 2, 3, 4, 5))}
    keys = [k for k in full if rng.random() < 0.75]
    out = {k: full[k] for k in keys}
    if shorthand:
        out = {(k[:-len('_threshold')] if k.endswith('_threshold') and rng.random() < 0.6 else k): v
               for k, v in out.items()}
    return out


def gen_burst_kwargs(rng, method):
    if method != 'amp':
        return rng.choice((None, {}))
    out = {}
    if rng.random() < 0.6:
        lo = _val(rng, (0.5, 0.8, 1, 1.2), 0.3, 1.5)
        out['amp_threshes'] = [lo, round(lo + _val(rng, (0.3, 0.5, 1), 0.1, 1.2), 2)]
    if rng.random() < 0.4:
        out['min_n_cycles'] = rng.choice((1, 2, 3, 4, 5))
    if rng.random() < 0.15:
        out['min_burst_duration'] = rng.choice((0.1, 0.2, 0.3))
    if rng.random() < 0.2:
        out['filter_kwargs'] = {'n_cycles': rng.choice((3, 4))}
    if not out and rng.random() < 0.5:
        return None
    return out


def gen_find_extrema_kwargs(rng):
    r = rng.random()
    if r < 0.5:
        return None
    out = {'filter_kwargs': {'n_cycles': rng.choice((3, 3, 4, 4, 5))}}
    if rng.random() < 0.4:
        out['boundary'] = rng.choice((0, 1, 2, 5, 10))
    if rng.random() < 0.15:
        out['pad'] = False
    return out


def gen_cf_kwargs(rng, method=None, center=None, stray=True):
    """A compute_features keyword dict as accepted in compute_features_kwargs."""
    method = method or rng.choice(('cycles', 'cycles', 'amp'))
    out = {}
    c = center or rng.choice(('peak', 'trough'))
    if c != 'peak' or rng.random() < 0.5:
        out['center_extrema'] = c
    if method != 'cycles' or rng.random() < 0.4:
        out['burst_method'] = method
    th = gen_thresholds(rng, method)
    if th or rng.random() < 0.5:
        out['threshold_kwargs'] = th
    bk = gen_burst_kwargs(rng, method)
    if bk is not None:
        out['burst_kwargs'] = bk
    fek = gen_find_extrema_kwargs(rng)
    if fek is not None:
        out['find_extrema_kwargs'] = fek
    if stray and rng.random() < 0.25:
        out['return_samples'] = rng.choice((True, False))   # documented as ignored
    return out


def live_kwargs(spec):
    """JSON spec -> live keyword dict (fresh objects; tuples where the API documents tuples)."""
    out = copy.deepcopy(spec)
    bk = out.get('burst_kwargs')
    if isinstance(bk, dict) and 'amp_threshes' in bk:
        bk['amp_threshes'] = tuple(bk['amp_threshes'])
    return out
