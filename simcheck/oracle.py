"""Oracles: exact equality of results and fingerprints of argument objects."""
import hashlib

import numpy as np
import pandas as pd


def diff(a, b, path=''):
    """None if `a` and `b` are observably identical, else a short description of the
    first difference. Tables: same columns in the same order, same dtypes, same index,
    identical values with NaN == NaN. Containers: recursively, same shape."""
    if isinstance(a, pd.DataFrame) or isinstance(b, pd.DataFrame):
        if not (isinstance(a, pd.DataFrame) and isinstance(b, pd.DataFrame)):
            return '%s: type %s vs %s' % (path, type(a).__name__, type(b).__name__)
        ca, cb = [str(c) for c in a.columns], [str(c) for c in b.columns]
        if ca != cb:
            return '%s: columns differ: %s vs %s' % (path, sorted(set(ca) ^ set(cb)) or 'order', '')
        if len(a) != len(b):
            return '%s: %d rows vs %d rows' % (path, len(a), len(b))
        if not a.index.equals(b.index):
            return '%s: index differs' % path
        for c in a.columns:
            sa, sb = a[c], b[c]
            if sa.dtype != sb.dtype:
                return '%s[%s]: dtype %s vs %s' % (path, c, sa.dtype, sb.dtype)
            d = diff(sa.to_numpy(), sb.to_numpy(), '%s[%s]' % (path, c))
            if d:
                return d
        return None
    if isinstance(a, pd.Series) or isinstance(b, pd.Series):
        if not (isinstance(a, pd.Series) and isinstance(b, pd.Series)):
            return '%s: type %s vs %s' % (path, type(a).__name__, type(b).__name__)
        if not a.index.equals(b.index):
            return '%s: index differs' % path
        return diff(a.to_numpy(), b.to_numpy(), path)
    if isinstance(a, np.ndarray) or isinstance(b, np.ndarray):
        if not (isinstance(a, np.ndarray) and isinstance(b, np.ndarray)):
            return '%s: type %s vs %s' % (path, type(a).__name__, type(b).__name__)
        if a.shape != b.shape:
            return '%s: shape %s vs %s' % (path, a.shape, b.shape)
        if a.dtype != b.dtype:
            return '%s: dtype %s vs %s' % (path, a.dtype, b.dtype)
        if a.dtype == object:
            for i, (x, y) in enumerate(zip(a.ravel().tolist(), b.ravel().tolist())):
                d = diff(x, y, '%s[%d]' % (path, i))
                if d:
                    return d
            return None
        eq = np.array_equal(a, b, equal_nan=a.dtype.kind in 'fc')
        if not eq:
            bad = np.flatnonzero(~((a == b) | ((a != a) & (b != b))).ravel()) \
                if a.dtype.kind in 'fc' else np.flatnonzero((a != b).ravel())
            k = int(bad[0]) if len(bad) else -1
            return '%s: %d of %d values differ (first at %d: %r vs %r)' % (
                path, len(bad), a.size, k, a.ravel()[k].item(), b.ravel()[k].item())
        return None
    if isinstance(a, (list, tuple)) or isinstance(b, (list, tuple)):
        if type(a) is not type(b):
            return '%s: type %s vs %s' % (path, type(a).__name__, type(b).__name__)
        if len(a) != len(b):
            return '%s: length %d vs %d' % (path, len(a), len(b))
        for i, (x, y) in enumerate(zip(a, b)):
            d = diff(x, y, '%s[%d]' % (path, i))
            if d:
                return d
        return None
    if isinstance(a, dict) or isinstance(b, dict):
        if not (isinstance(a, dict) and isinstance(b, dict)):
            return '%s: type %s vs %s' % (path, type(a).__name__, type(b).__name__)
        if set(a) != set(b):
            return '%s: keys differ: %s' % (path, sorted(map(str, set(a) ^ set(b))))
        for k in sorted(a, key=str):
            d = diff(a[k], b[k], '%s[%r]' % (path, k))
            if d:
                return d
        return None
    if isinstance(a, float) and isinstance(b, float):
        if a == b or (a != a and b != b):
            return None
        return '%s: %r vs %r' % (path, a, b)
    if isinstance(a, (np.generic,)) or isinstance(b, (np.generic,)):
        try:
            if a == b or (a != a and b != b):
                return None
        except Exception:
            pass
        return '%s: %r vs %r' % (path, a, b)
    if type(a) is not type(b) and not (isinstance(a, (int, float)) and isinstance(b, (int, float))
                                       and not isinstance(a, bool) and not isinstance(b, bool)):
        return '%s: type %s vs %s' % (path, type(a).__name__, type(b).__name__)
    if a != b:
        return '%s: %r vs %r' % (path, a, b)
    return None


def fingerprint(obj):
    """Hex digest of the observable value of an argument / result object.
    Dict key order is ignored (a dict compares equal regardless of insertion order)."""
    h = hashlib.sha256()
    _feed(h, obj)
    return h.hexdigest()[:20]


def _feed(h, obj):
    if isinstance(obj, pd.DataFrame):
        h.update(b'DF')
        h.update(repr([str(c) for c in obj.columns]).encode())
        h.update(repr([str(t) for t in obj.dtypes]).encode())
        _feed(h, obj.index.to_numpy())
        for c in obj.columns:
            _feed(h, obj[c].to_numpy())
    elif isinstance(obj, pd.Series):
        h.update(b'SE')
        _feed(h, obj.index.to_numpy())
        _feed(h, obj.to_numpy())
    elif isinstance(obj, np.ndarray):
        h.update(b'ND')
        h.update(str(obj.dtype).encode())
        h.update(repr(obj.shape).encode())
        if obj.dtype == object:
            for x in obj.ravel().tolist():
                _feed(h, x)
        else:
            a = np.ascontiguousarray(obj)
            if a.dtype.kind == 'f':
                a = np.where(a != a, np.float64('nan'), a) + 0.0   # canonical NaN, -0.0 -> 0.0
            h.update(a.tobytes())
    elif isinstance(obj, dict):
        h.update(b'DI')
        for k in sorted(obj, key=lambda x: (type(x).__name__, str(x))):
            h.update(repr(k).encode())
            _feed(h, obj[k])
        h.update(b'/DI')
    elif isinstance(obj, (list, tuple)):
        h.update(b'LI' if isinstance(obj, list) else b'TU')
        for x in obj:
            _feed(h, x)
        h.update(b'/L')
    elif isinstance(obj, BaseException):
        h.update(('EXC:' + type(obj).__name__).encode())
    elif isinstance(obj, (np.generic,)):
        _feed(h, obj.item())
    else:
        h.update(repr(obj).encode())


def outcome(fn, *args, **kwargs):
    """Run fn and normalise to ('ok', value) or ('raise', ExceptionTypeName, message)."""
    try:
        return ('ok', fn(*args, **kwargs))
    except Exception as e:   # KeyboardInterrupt subclasses propagate on purpose
        return ('raise', type(e).__name__, str(e)[:200])


def outcome_diff(a, b, path=''):
    """Compare two outcomes: both must return identical values or raise the same type."""
    if a[0] != b[0]:
        return '%s: %s vs %s' % (path, _short(a), _short(b))
    if a[0] == 'raise':
        if a[1] != b[1]:
            return '%s: raises %s vs raises %s' % (path, a[1], b[1])
        return None
    return diff(a[1], b[1], path)


def _short(o):
    if o[0] == 'raise':
        return 'raises %s(%s)' % (o[1], o[2][:80])
    return 'returns %s' % type(o[1]).__name__
