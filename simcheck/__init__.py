"""Deterministic simulation with fault injection for bycycle (see /verif/DESIGN.md)."""
