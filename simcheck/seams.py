"""Call seams: every module-level function that bycycle code calls through a module
attribute is wrapped (same wrapper object in every bycycle namespace holding it, so
pickling by reference still works). The wrapper consults the active controller
before and after the wrapped call: interruption points and yield points."""
import _thread
import functools
import os
import sys
import threading
import types

_STATE = {'installed': False, 'saved': [], 'sites': []}
_RealEvent = threading.Event
ACTIVE = None          # the controller of the current run (or None)


class SimInterrupt(KeyboardInterrupt):
    """Injected interruption between two pipeline stages (user pressed stop / failing
    allocation). Subclass of KeyboardInterrupt so that no `except Exception` swallows it."""


def _is_bycycle(name):
    return (name == 'bycycle' or name.startswith('bycycle.')) and '.tests' not in name


def _wrap(func, site):
    @functools.wraps(func)
    def seam(*args, **kwargs):
        ctl = ACTIVE
        if ctl is None:
            return func(*args, **kwargs)
        ctl.hit(site, 'before')
        out = func(*args, **kwargs)
        ctl.hit(site, 'after')
        return out
    seam.__seam_of__ = func
    return seam


def install():
    """Idempotent. Returns the sorted list of seam site names."""
    if _STATE['installed']:
        return _STATE['sites']
    by_func = {}
    holders = []
    for name in sorted(sys.modules):
        mod = sys.modules[name]
        if mod is None or not _is_bycycle(name):
            continue
        for attr in sorted(vars(mod)):
            val = vars(mod)[attr]
            if not isinstance(val, types.FunctionType) or attr.startswith('_'):
                continue
            m = getattr(val, '__module__', '') or ''
            if not (_is_bycycle(m) or m.startswith('neurodsp')):
                continue
            if hasattr(val, '__seam_of__'):
                continue
            by_func.setdefault(id(val), (val, '%s.%s' % (m, val.__qualname__)))
            holders.append((mod, attr, val))
    wrappers = {fid: _wrap(f, site) for fid, (f, site) in by_func.items()}
    for mod, attr, val in holders:
        _STATE['saved'].append((mod, attr, val))
        setattr(mod, attr, wrappers[id(val)])
    _STATE['sites'] = sorted(site for _f, site in by_func.values())
    _STATE['installed'] = True
    return _STATE['sites']


def uninstall():
    for mod, attr, val in reversed(_STATE['saved']):
        setattr(mod, attr, val)
    _STATE.update(installed=False, saved=[], sites=[])


class Controller:
    """Per-run seam controller. Interrupts: `arm_interrupt(k)` raises SimInterrupt at the
    k-th seam hit from now. Yields: if a baton is attached, armed sites hand the baton on."""

    def __init__(self, tape, sim=None, armed_sites=None):
        self.tape = tape
        self.sim = sim
        self.armed = armed_sites          # None = all sites
        self.hits = 0
        self.countdown = None
        self.fired = 0
        self.fired_sites = []
        self.baton = None
        self.yield_num, self.yield_den = 0, 1
        self.sites_seen = set()
        self.log = []
        self.suspended = False
        self.tracer = None
        self.pid = os.getpid()

    def arm_interrupt(self, k):
        self.countdown = k
        if self.tracer is not None:
            self.tracer.ensure()

    def disarm(self):
        self.countdown = None

    def hit(self, site, when, can_interrupt=True):
        if self.suspended or os.getpid() != self.pid:
            return          # (child processes forked by the code under test are never interrupted)
        sim = self.sim
        if sim is not None and (sim.in_worker or sim.in_step):
            return                      # never inside a simulated worker process
        t = threading.current_thread()
        if self.baton is not None:
            if t is not self.baton.holder_thread():
                return
        elif t is not threading.main_thread():
            return          # threads started by the code under test are never interrupted
        self.hits += 1
        self.sites_seen.add(site)
        if self.armed is not None and site not in self.armed:
            return
        if self.countdown is not None and can_interrupt:
            self.countdown -= 1
            if self.countdown <= 0:
                self.countdown = None
                self.fired += 1
                self.fired_sites.append((site, when))
                self.log.append(('interrupt', site, when))
                raise SimInterrupt('injected at %s (%s)' % (site, when))
        if self.baton is not None and self.yield_num:
            if self.tape.chance(self.yield_num, self.yield_den, 'yield?'):
                self.baton.yield_point(site)


class LineTracer:
    """Line-granularity pre-emption: every executed source line of the bycycle package (tests
    excluded) is an interruption / yield point, via sys.settrace. An exception raised by the
    trace function propagates into the traced frame at that line (and switches tracing off),
    which is exactly an interrupt between two statements."""

    def __init__(self, ctl, root):
        self.ctl = ctl
        self.root = os.path.join(os.path.realpath(root), 'bycycle') + os.sep
        self.lines = 0

    def _global(self, frame, event, arg):
        fn = frame.f_code.co_filename
        if fn.startswith(self.root) and (os.sep + 'tests' + os.sep) not in fn:
            return self._frame_tracer()
        return None

    def _frame_tracer(self):
        """One local trace function per frame, remembering the last line it saw. An interrupt is
        only raised when execution moves *forward* to a later line of the frame: CPython (3.12)
        skips enclosing `with` clean-up when a trace function raises at a loop back-edge on the
        same line (one-line loops, inlined comprehensions) or on the way out of a `with` body,
        which no real interrupt does - such events still count as yield points, not as
        interruption points."""
        state = {'last': 0}

        def local(frame, event, arg):
            if event == 'line':
                self.lines += 1
                forward = frame.f_lineno > state['last']
                state['last'] = frame.f_lineno
                self.ctl.hit(('line', frame.f_code.co_name, frame.f_lineno), 'line',
                             can_interrupt=forward)
            return local
        return local

    def install(self):
        threading.settrace(self._global)
        sys.settrace(self._global)

    def ensure(self):
        """Re-arm in the current thread (tracing is switched off when an interrupt was raised)."""
        if sys.gettrace() is None:
            sys.settrace(self._global)

    def remove(self):
        sys.settrace(None)
        threading.settrace(None)


class activate:
    def __init__(self, ctl, line_root=None):
        self.ctl = ctl
        self.tracer = LineTracer(ctl, line_root) if line_root else None

    def __enter__(self):
        global ACTIVE
        install()
        ACTIVE = self.ctl
        self.ctl.tracer = self.tracer
        if self.tracer is not None:
            self.tracer.install()
        return self.ctl

    def __exit__(self, *exc):
        global ACTIVE
        if self.tracer is not None:
            self.tracer.remove()
        ACTIVE = None
        return False


CURRENT_BATON = None       # the baton of the running interleaved session set (or None)


class SimLock:
    """threading.Lock stand-in handed to bycycle code: an ordinary lock, except that a caller
    session that would block on it while holding the baton hands the baton on instead (the
    holder of the lock is a parked session; blocking for real would stall the simulation).
    Who runs next is chosen through the tape, so runs stay repeatable."""

    def __init__(self):
        self._real = _thread.allocate_lock()

    def acquire(self, blocking=True, timeout=-1):
        if self._real.acquire(False):
            return True
        if not blocking:
            return False
        b = CURRENT_BATON
        if b is None or not b.is_holder():
            return self._real.acquire(True, timeout)
        while True:
            # a thread the code under test started itself may hold it briefly: wait a moment for real
            if self._real.acquire(True, 0.05):
                return True
            if not b.others_alive():
                # no parked session could hold it: an ordinary blocking acquire
                return self._real.acquire(True, timeout)
            b.blocked_yield()

    def release(self):
        self._real.release()

    def locked(self):
        return self._real.locked()

    def __enter__(self):
        self.acquire()
        return True

    def __exit__(self, *exc):
        self.release()

    def _at_fork_reinit(self):
        self._real = _thread.allocate_lock()


class SimRLock:
    """Re-entrant variant (owner + count on top of SimLock); supports threading.Condition."""

    def __init__(self):
        self._block = SimLock()
        self._owner = None
        self._count = 0

    def acquire(self, blocking=True, timeout=-1):
        me = _thread.get_ident()
        if self._owner == me:
            self._count += 1
            return True
        ok = self._block.acquire(blocking, timeout)
        if ok:
            self._owner, self._count = me, 1
        return ok

    def release(self):
        if self._owner != _thread.get_ident():
            raise RuntimeError('cannot release un-acquired lock')
        self._count -= 1
        if self._count == 0:
            self._owner = None
            self._block.release()

    def __enter__(self):
        self.acquire()
        return True

    def __exit__(self, *exc):
        self.release()

    def _is_owned(self):
        return self._owner == _thread.get_ident()

    def _recursion_count(self):
        return self._count if self._owner == _thread.get_ident() else 0

    def locked(self):
        return self._count > 0

    def _release_save(self):
        state = (self._count, self._owner)
        self._count, self._owner = 0, None
        self._block.release()
        return state

    def _acquire_restore(self, state):
        self._block.acquire()
        self._count, self._owner = state

    def _at_fork_reinit(self):
        self._block._at_fork_reinit()
        self._owner, self._count = None, 0


class sim_locks:
    """Context manager: threading.Lock / RLock create simulator-aware locks inside the block."""

    def __enter__(self):
        from . import simpool
        self._saved = (threading.Lock, threading.RLock, threading.Event, threading.Condition,
                       threading.Semaphore, threading.BoundedSemaphore)
        threading.Lock, threading.RLock = SimLock, SimRLock
        threading.Event, threading.Condition = simpool.SimAwareEvent, simpool.SimAwareCondition
        threading.Semaphore = simpool.SimAwareSemaphore
        threading.BoundedSemaphore = simpool.SimAwareBoundedSemaphore
        return self

    def __exit__(self, *exc):
        (threading.Lock, threading.RLock, threading.Event, threading.Condition,
         threading.Semaphore, threading.BoundedSemaphore) = self._saved
        return False


_FORK_HOOK = {'installed': False}


def install_fork_hook():
    """Code under test may re-create its module-level locks in an `os.register_at_fork` hook
    (after_in_child). Every run is a forked child, so such a hook fires before any of our code
    runs there: make sure the lock factories are already the simulator-aware ones at that moment
    (hooks run in registration order, this one is registered before bycycle is imported). The
    replacements behave exactly like the real classes whenever no simulation is active."""
    if _FORK_HOOK['installed'] or not hasattr(os, 'register_at_fork'):
        return
    _FORK_HOOK['installed'] = True

    def in_child():
        from . import simpool
        threading.Lock, threading.RLock = SimLock, SimRLock
        threading.Event, threading.Condition = simpool.SimAwareEvent, simpool.SimAwareCondition
        threading.Semaphore = simpool.SimAwareSemaphore
        threading.BoundedSemaphore = simpool.SimAwareBoundedSemaphore
    os.register_at_fork(after_in_child=in_child)


class Baton:
    """Exactly one caller session runs at any time; the baton moves only at yield points
    and at session boundaries, and the next holder is chosen through the tape."""

    def __init__(self, tape, n):
        self.tape = tape
        self.n = n
        self.events = [_RealEvent() for _ in range(n)]
        self.done_event = _RealEvent()
        self.alive = list(range(n))
        self.current = None
        self.threads = [None] * n
        self.switches = 0
        self.switches_inside_call = 0
        self.lock_yields = 0
        self.in_call = [False] * n
        self.log = []
        self.errors = [None] * n

    def holder_thread(self):
        return self.threads[self.current] if self.current is not None else None

    def _me(self):
        t = threading.current_thread()
        return self.threads.index(t)

    def _handoff(self, me, nxt, where):
        if nxt == me:
            return
        self.switches += 1
        if self.in_call[me]:
            self.switches_inside_call += 1
        self.log.append(('switch', me, nxt, where))
        self.current = nxt
        self.events[nxt].set()
        self.events[me].wait()
        self.events[me].clear()

    def is_holder(self):
        t = threading.current_thread()
        return self.current is not None and self.threads[self.current] is t

    def others_alive(self):
        me = self._me()
        return any(i != me for i in self.alive)

    def blocked_yield(self):
        """The holder cannot get a lock that a parked session owns: someone else must run."""
        me = self._me()
        others = [i for i in self.alive if i != me]
        if not others:
            from .simpool import SimDeadlock
            raise SimDeadlock('session %d waits for a lock that no live session can release' % me)
        self.lock_yields += 1
        nxt = others[self.tape.choose(len(others), 'baton-lock')]
        self._handoff(me, nxt, 'blocked-on-lock')

    def yield_point(self, where):
        me = self._me()
        if len(self.alive) <= 1:
            return
        nxt = self.alive[self.tape.choose(len(self.alive), 'baton')]
        self._handoff(me, nxt, where)

    def run(self, bodies):
        """bodies: list of callables(session_index). Blocks until all sessions finished."""
        def runner(i):
            self.events[i].wait()
            self.events[i].clear()
            try:
                bodies[i](i)
            except BaseException as e:      # reported by the driver
                self.errors[i] = e
            finally:
                self.alive.remove(i)
                if self.alive:
                    nxt = self.alive[self.tape.choose(len(self.alive), 'baton-exit')]
                    self.log.append(('exit', i, nxt))
                    self.current = nxt
                    self.events[nxt].set()
                else:
                    self.current = None
                    self.done_event.set()
        for i in range(self.n):
            t = threading.Thread(target=runner, args=(i,), name='session-%d' % i, daemon=True)
            self.threads[i] = t
        for t in self.threads:
            t.start()
        global CURRENT_BATON
        CURRENT_BATON = self
        try:
            first = self.alive[self.tape.choose(len(self.alive), 'baton-first')]
            self.current = first
            self.events[first].set()
            self.done_event.wait()
            for t in self.threads:
                t.join(timeout=5)
        finally:
            CURRENT_BATON = None
