"""Batch driver shared by all property checks: seeded fan-out, minimisation,
replay files, known findings, evidence."""
import collections
import concurrent.futures
import contextlib
import hashlib
import io
import json
import multiprocessing
import os
import random
import subprocess
import sys
import threading
import time
import traceback
import warnings

from .rng import H, Tape

VERIF = os.path.dirname(os.path.dirname(os.path.abspath(__file__)))
REPO = os.path.realpath(os.environ.get('VERIF_REPO', '/repo'))
OUT = os.environ.get('VERIF_OUT', os.path.join(VERIF, 'out'))
RUN_WALL_CAP_S = 120
MAX_MINIMISED_GROUPS = 3
MINIMISE_TOTAL_S = 60


class HarnessError(Exception):
    pass


class RunTimeout(BaseException):
    pass


def _import_bycycle():
    import bycycle  # noqa: F401
    import bycycle.objs  # noqa: F401
    import bycycle.group  # noqa: F401
    import bycycle.features  # noqa: F401
    import bycycle.burst  # noqa: F401
    import bycycle.plts  # noqa: F401
    import bycycle.cyclepoints  # noqa: F401
    import bycycle.utils  # noqa: F401


def import_sut():
    """Import bycycle from $VERIF_REPO's working tree and make sure that is what we got."""
    warnings.simplefilter('ignore')
    if REPO not in sys.path:
        sys.path.insert(0, REPO)
    import matplotlib
    matplotlib.use('Agg')
    import matplotlib.pyplot  # noqa: F401  (third-party imports first: only bycycle's own
    import numpy  # noqa: F401               module-level locks become simulator-aware)
    import pandas  # noqa: F401
    import scipy.signal  # noqa: F401
    import neurodsp.filt  # noqa: F401
    import neurodsp.burst  # noqa: F401
    import neurodsp.timefrequency  # noqa: F401
    import neurodsp.plts  # noqa: F401
    import asyncio  # noqa: F401           (standard-library modules that create module-level
    import concurrent.futures.process  # noqa: F401   synchronisation objects: imported before the window)
    import concurrent.futures.thread  # noqa: F401
    import logging  # noqa: F401
    import multiprocessing.connection  # noqa: F401
    import multiprocessing.managers  # noqa: F401
    import multiprocessing.pool  # noqa: F401
    import multiprocessing.queues  # noqa: F401
    import multiprocessing.resource_tracker  # noqa: F401
    import multiprocessing.shared_memory  # noqa: F401
    import multiprocessing.synchronize  # noqa: F401
    import queue  # noqa: F401
    import tempfile  # noqa: F401
    from . import seams
    seams.install_fork_hook()
    with seams.sim_locks():
        _import_bycycle()
    import bycycle
    import bycycle.objs
    import bycycle.group
    import bycycle.features
    import bycycle.burst
    import bycycle.plts
    import bycycle.cyclepoints
    import bycycle.utils
    path = os.path.realpath(bycycle.__file__)
    if not path.startswith(REPO + os.sep):
        raise HarnessError('bycycle imported from %s, expected under %s' % (path, REPO))
    # pandas / numpy emit warnings through the warnings module only; keep them out of stdout
    return bycycle


@contextlib.contextmanager
def quiet():
    """The system under test may print (progress fallback message) - keep stdout clean."""
    sink = io.StringIO()
    with contextlib.redirect_stdout(sink), warnings.catch_warnings():
        warnings.simplefilter('ignore')
        yield sink


class Result:
    """Outcome of one simulated run (picklable)."""

    def __init__(self):
        self.vclass = None        # violation class or None
        self.signature = None     # specific site / history shape (for known findings)
        self.detail = ''
        self.digest = ''
        self.rdigest = ''         # results only (no schedule): must repeat even if the code under
                                  # test starts real threads / processes of its own
        self.stats = collections.Counter()
        self.inter_sig = ''       # abstract interleaving / history signature
        self.nontrivial = False
        self.sim_time = 0.0
        self.steps = 0
        self.plan = None
        self.decisions = None
        self.error = None         # harness error text

    def violate(self, vclass, signature, detail):
        if self.vclass is None:
            self.vclass, self.signature, self.detail = vclass, signature, detail


def seeds_for(prop_id, verif_seed, idx):
    run_seed = H(verif_seed, prop_id, idx)
    return run_seed, H(run_seed, 'workload'), H(run_seed, 'faults'), H(run_seed, 'schedule')


def make_plan(prop, verif_seed, idx):
    run_seed, s_wl, s_f, s_sched = seeds_for(prop.ID, verif_seed, idx)
    plan = prop.gen_plan(random.Random(s_wl), random.Random(s_f), idx)
    plan['prop'] = prop.ID
    return plan, s_sched


def _execute_in_child(prop, plan, tape):
    res = prop.execute(plan, tape)
    res.decisions = list(tape.decisions)
    return res


def guarded_execute(prop, plan, tape):
    """execute() in a forked child under a wall cap. The calling process never runs code of the
    system under test, so every execution starts from the same pristine image; harness
    exceptions and timeouts are classified apart from violations."""
    from . import pristine
    kind, val = pristine.fork_call(lambda: _execute_in_child(prop, plan, tape), timeout=RUN_WALL_CAP_S)
    if kind == 'ok':
        return val
    res = Result()
    res.error = 'wall cap of %ds hit' % RUN_WALL_CAP_S if kind == 'timeout' else val
    res.decisions = []
    return res


def run_index(prop, verif_seed, idx, keep_plan=False):
    plan, s_sched = make_plan(prop, verif_seed, idx)
    tape = Tape(s_sched)
    res = guarded_execute(prop, plan, tape)
    res.idx = idx
    if res.vclass or res.error or keep_plan:
        res.plan = plan
    else:
        res.decisions = None
    return res


_PROP = None


def _worker_chunk(args):
    prop_name, verif_seed, idxs, keep = args
    prop = load_prop(prop_name)
    out = []
    for i in idxs:
        r = run_index(prop, verif_seed, i, keep_plan=(i in keep))
        out.append(r)
        if r.error and 'wall cap' in r.error:
            break           # do not spend the rest of the chunk on a tree that hangs
    return out


def load_prop(name):
    import importlib
    return importlib.import_module('simcheck.' + name.lower())


# ---------------------------------------------------------------------------
# known findings

def load_known():
    path = os.environ.get('VERIF_KNOWN_FINDINGS') or os.path.join(VERIF, 'known_findings.json')
    if not os.path.exists(path):
        return []
    with open(path) as f:
        return json.load(f).get('findings', [])


def match_known(known, prop_id, vclass, signature):
    for k in known:
        if k.get('status') != 'known':
            continue          # 'fixed' entries suppress nothing
        if k['property'] == prop_id and k['match']['class'] == vclass \
                and k['match']['signature'] == signature:
            return k
    return None


# ---------------------------------------------------------------------------
# minimisation

def minimise(prop, plan, decisions, vclass, signature, budget_s=25.0):
    """Greedy shrinking of plan and tape while the same violation class and signature persist."""
    t0 = time.time()
    best_plan, best_tape = plan, list(decisions)
    tried = 0

    def still_fails(p, tp):
        nonlocal tried
        tried += 1
        r = guarded_execute(prop, p, Tape(replay=tp))
        return (r.vclass == vclass and r.signature == signature and not r.error), r

    improved = True
    while improved and time.time() - t0 < budget_s:
        improved = False
        for cand in prop.shrink(best_plan):
            if time.time() - t0 > budget_s:
                break
            ok, r = still_fails(cand, best_tape)
            if not ok:
                ok, r = still_fails(cand, [])
                if ok:
                    best_tape = []
            if ok:
                best_plan = cand
                best_tape = list(r.decisions)
                improved = True
                break
    # tape: all zero, then zero one half / single entries
    if any(best_tape) and time.time() - t0 < budget_s:
        ok, r = still_fails(best_plan, [])
        if ok:
            best_tape = list(r.decisions)
        else:
            n = len(best_tape)
            chunk = max(1, n // 2)
            while chunk >= 1 and time.time() - t0 < budget_s:
                i = 0
                while i < n and time.time() - t0 < budget_s:
                    if any(best_tape[i:i + chunk]):
                        cand = best_tape[:i] + [0] * len(best_tape[i:i + chunk]) + best_tape[i + chunk:]
                        ok, r = still_fails(best_plan, cand)
                        if ok:
                            best_tape = list(r.decisions)
                            n = len(best_tape)
                    i += chunk
                if chunk == 1:
                    break
                chunk //= 2
    return best_plan, best_tape, tried


def write_replay(prop_id, verif_seed, idx, plan, tape, res, minimised, extra=None):
    os.makedirs(os.path.join(OUT, 'replays'), exist_ok=True)
    path = os.path.join(OUT, 'replays', '%s-%d-%d.json' % (prop_id, verif_seed, idx))
    doc = {'property': prop_id, 'verif_seed': verif_seed, 'run_index': idx,
           'class': res.vclass, 'signature': res.signature, 'detail': res.detail,
           'minimised': minimised, 'plan': plan, 'tape': list(tape)}
    if extra:
        doc.update(extra)
    with open(path, 'w') as f:
        json.dump(doc, f, indent=1, sort_keys=True)
    return path


def replay_file(path, verbose=True):
    """Re-execute a replay file. Returns (reproduced?, Result)."""
    with open(path) as f:
        doc = json.load(f)
    prop = load_prop(doc['property'])
    res = guarded_execute(prop, doc['plan'], Tape(replay=doc['tape']))
    if doc.get('batch_level') and not res.vclass and not res.error:
        pv = prop.progress_violation(res.stats, min_attempts=1)
        if pv is not None and pv[1] == doc['signature']:
            res.vclass, res.signature, res.detail = pv[0], pv[1], pv[2]
    same = (res.vclass == doc['class'] and res.signature == doc['signature'])
    if verbose:
        print('replay of %s' % path, file=sys.stderr)
        print('  recorded : class=%s signature=%s' % (doc['class'], doc['signature']), file=sys.stderr)
        print('  now      : class=%s signature=%s' % (res.vclass, res.signature), file=sys.stderr)
        if res.detail:
            print('  detail   : %s' % res.detail, file=sys.stderr)
        if res.error:
            print('  harness error:\n%s' % res.error, file=sys.stderr)
        if hasattr(prop, 'describe'):
            print(prop.describe(doc['plan']), file=sys.stderr)
    return same, res


def replay_in_fresh_interpreter(path):
    env = dict(os.environ)
    env['VERIF_NO_REEXEC'] = ''
    p = subprocess.run([sys.executable, os.path.join(VERIF, 'run.py'), 'replay', path],
                       capture_output=True, text=True, env=env, timeout=600)
    return p.returncode == 1 and 'VIOLATION' in p.stdout


# ---------------------------------------------------------------------------
# batch

def run_batch(prop_name, tier, verif_seed, n_runs, wall_budget_s, workers=None, progress_rule=True):
    """Run `n_runs` seeded simulations (or until the wall budget), minimise and report
    violations, write evidence. Returns the process exit code."""
    t_start = time.time()
    prop = load_prop(prop_name)
    import_sut()
    known = load_known()
    workers = workers or int(os.environ.get('VERIF_WORKERS', '0')) or min(16, os.cpu_count() or 1)
    chunk = max(1, min(8, n_runs // (workers * 4) or 1))
    idx_chunks = [list(range(i, min(i + chunk, n_runs))) for i in range(0, n_runs, chunk)]
    keep = set(range(0, 3))     # sample plans for the evidence file

    stats = collections.Counter()
    inter = set()
    inter_nontrivial = set()
    digests = {}
    rdigests = {}
    results_bad = []
    errors = []
    samples = []
    sim_time = 0.0
    steps = 0
    done = 0
    stopped_early = False
    witness = {}

    ctx = multiprocessing.get_context('fork')
    with concurrent.futures.ProcessPoolExecutor(max_workers=workers, mp_context=ctx) as ex:
        futs = collections.deque()
        it = iter(idx_chunks)

        def submit_next():
            try:
                c = next(it)
            except StopIteration:
                return False
            futs.append(ex.submit(_worker_chunk, (prop_name, verif_seed, c, keep)))
            return True

        for _ in range(workers * 2):
            if not submit_next():
                break
        while futs:
            f = futs.popleft()
            try:
                out = f.result(timeout=RUN_WALL_CAP_S * chunk + 60)
            except Exception as e:
                errors.append('worker failed: %r' % (e,))
                continue
            for r in out:
                done += 1
                stats.update(r.stats)
                sim_time += r.sim_time
                steps += r.steps
                inter.add(r.inter_sig)
                if r.nontrivial:
                    inter_nontrivial.add(r.inter_sig)
                digests[r.idx] = r.digest
                rdigests[r.idx] = r.rdigest
                for k in getattr(prop, 'PROGRESS_KEYS', ()):
                    if k not in witness and r.stats.get('attempt.' + k, 0) > 0 \
                            and r.stats.get('progress.' + k, 0) == 0:
                        witness[k] = r.idx
                if r.error:
                    errors.append('run %d: %s' % (r.idx, r.error))
                elif r.vclass:
                    results_bad.append(r)
                if r.plan is not None and not r.vclass and not r.error and len(samples) < 3:
                    samples.append(prop.sample_view(r.plan, r))
            n_unknown = sum(1 for r in results_bad if match_known(known, prop.ID, r.vclass, r.signature) is None)
            if time.time() - t_start > wall_budget_s or n_unknown >= 24:
                stopped_early = True
                for g in futs:
                    g.cancel()
                # drain those already running
                for g in futs:
                    if not g.cancelled():
                        try:
                            for r in g.result(timeout=RUN_WALL_CAP_S * chunk + 60):
                                done += 1
                                stats.update(r.stats)
                                if r.vclass and not r.error:
                                    results_bad.append(r)
                        except Exception:
                            pass
                break
            submit_next()

    # determinism spot check: the first few run seeds are executed a second time (other process,
    # other position in the batch); a digest mismatch is a harness error, never a verdict
    recheck = [i for i in range(min(8, n_runs)) if i in digests]
    for i in recheck:
        r2 = run_index(prop, verif_seed, i)
        if (r2.rdigest or r2.digest) != (rdigests.get(i) or digests[i]):
            errors.append('run %d is not deterministic: results digest %s then %s'
                          % (i, rdigests.get(i) or digests[i], r2.rdigest or r2.digest))
        elif r2.digest != digests[i]:
            # same results under a different schedule: only possible when the code under test
            # brings concurrency of its own that the simulator does not own (reported, not an error)
            stats['schedule_digest_mismatches_with_equal_results'] += 1
    stats['determinism_rechecks'] = len(recheck)

    # batch-level progress rule (bounded liveness: well-formed, fault-free work must get done)
    if progress_rule and hasattr(prop, 'progress_violation'):
        pv = prop.progress_violation(stats)
        if pv is not None:
            vclass, signature, detail, key = pv
            r = run_index(prop, verif_seed, witness.get(key, 0), keep_plan=True)
            r.vclass, r.signature, r.detail = vclass, signature, detail
            r.batch_level = True
            results_bad.append(r)

    # group violations by (class, signature); minimise one witness each
    exit_code = 0
    lines = []
    groups = collections.OrderedDict()
    for r in sorted(results_bad, key=lambda r: r.idx):
        groups.setdefault((r.vclass, r.signature), []).append(r)
    n_viol = 0
    n_groups_reported = 0
    t_min0 = time.time()
    for (vclass, signature), rs in groups.items():
        r = rs[0]
        kf = match_known(known, prop.ID, vclass, signature)
        if kf is not None:
            lines.append('KNOWN-FINDING: property=%s %s (class=%s signature=%s; %d runs)' % (
                prop.ID, kf.get('what', ''), vclass, signature, len(rs)))
            continue
        n_viol += len(rs)
        n_groups_reported += 1
        if n_groups_reported > MAX_MINIMISED_GROUPS or time.time() - t_min0 > MINIMISE_TOTAL_S:
            # further distinct violations: reported with their recorded (un-minimised) replay
            path = write_replay(prop.ID, verif_seed, r.idx, r.plan, r.decisions or [], r, False)
            print('violation class=%s signature=%s runs=%d detail=%s' % (
                vclass, signature, len(rs), r.detail), file=sys.stderr)
            lines.append('VIOLATION property=%s replay=%s' % (prop.ID, path))
            exit_code = 1
            continue
        if getattr(r, 'batch_level', False):
            path = write_replay(prop.ID, verif_seed, r.idx, r.plan, r.decisions or [], r, False,
                                {'batch_level': True})
        else:
            try:
                mplan, mtape, tried = minimise(prop, r.plan, r.decisions, vclass, signature)
                rr = guarded_execute(prop, mplan, Tape(replay=mtape))
                path = write_replay(prop.ID, verif_seed, r.idx, mplan, rr.decisions, rr, True,
                                    {'shrink_attempts': tried,
                                     'seeds_failing_in_batch': [x.idx for x in rs][:20]})
                ok = rr.vclass == vclass and replay_in_fresh_interpreter(path)
            except Exception:
                # a failure of the minimiser must never hide the violation itself
                print('minimisation failed:\n%s' % traceback.format_exc(), file=sys.stderr)
                ok = False
            if not ok:
                # fall back to the un-minimised recording
                path = write_replay(prop.ID, verif_seed, r.idx, r.plan, r.decisions, r, False)
        print('violation class=%s signature=%s runs=%d detail=%s' % (
            vclass, signature, len(rs), r.detail), file=sys.stderr)
        lines.append('VIOLATION property=%s replay=%s' % (prop.ID, path))
        exit_code = 1

    wall = time.time() - t_start
    if errors:
        for e in errors[:2]:
            print('HARNESS-ERROR: %s' % e[-1500:], file=sys.stderr)
        print('HARNESS-ERROR: %d runs failed inside the harness' % len(errors), file=sys.stderr)
        if exit_code == 0:
            exit_code = 2

    write_evidence(prop, tier, verif_seed, done, wall, stats, inter, inter_nontrivial, samples,
                   sim_time, steps, n_viol, workers, stopped_early, len(errors))
    for ln in lines:
        print(ln)
    sys.stdout.flush()
    print('%s %s: %d runs in %.1fs (%.0f runs/h), %d distinct interleavings/histories, '
          '%d violations, %d harness errors' % (prop.ID, tier, done, wall, done / wall * 3600,
                                                len(inter), n_viol, len(errors)), file=sys.stderr)
    return exit_code


def write_evidence(prop, tier, verif_seed, runs, wall, stats, inter, inter_nt, samples, sim_time,
                   steps, n_viol, workers, stopped_early, n_errors):
    faults = {k[len('fault.'):]: v for k, v in sorted(stats.items()) if k.startswith('fault.')}
    probes = {k[len('probe.'):]: v for k, v in sorted(stats.items()) if k.startswith('probe.')}
    other = {k: v for k, v in sorted(stats.items())
             if not k.startswith('fault.') and not k.startswith('probe.')}
    ev = {
        'property_id': prop.ID,
        'tier': tier,
        'seed': verif_seed,
        'level': 'exploration',
        'wall_s': round(wall, 2),
        'violations': n_viol,
        'coverage': {
            'evaluations': runs,
            'distinct_nontrivial': len(inter_nt),
            'rule': prop.RULE,
            'samples': samples,
            'distinct_interleavings_or_histories': len(inter),
            'simulated_runs_per_hour': int(runs / wall * 3600) if wall > 0 else 0,
            'seeds_per_hour': int(runs / wall * 3600) if wall > 0 else 0,
            'simulated_time_ms': round(sim_time, 1),
            'simulator_steps': steps,
            'faults_fired': faults,
            'reach_probes': probes,
            'counters': other,
            'components_real': prop.REAL,
            'components_stub': prop.STUB,
            'harness_workers': workers,
            'stopped_on_wall_budget': stopped_early,
            'harness_errors': n_errors,
        },
        'assumptions': prop.ASSUMPTIONS,
    }
    evdir = os.environ.get('VERIF_EVIDENCE_DIR') or os.path.join(VERIF, 'evidence')
    os.makedirs(evdir, exist_ok=True)
    path = os.path.join(evdir, prop.ID + '.json')
    with open(path, 'w') as f:
        json.dump(ev, f, indent=1, sort_keys=True, default=str)
        f.write('\n')


_RealThread = threading.Thread


def run_maybe_in_thread(fn, in_thread):
    """Call fn() here, or (a seeded subset of runs) from a helper thread - the library may be used
    from any thread. Exceptions are re-raised in the caller."""
    if not in_thread:
        return fn()
    box = {}

    def target():
        try:
            box['value'] = fn()
        except BaseException as e:      # re-raised below
            box['error'] = e
    t = _RealThread(target=target, name='caller-thread')
    t.start()
    t.join()
    if 'error' in box:
        raise box['error']
    return box.get('value')


def digest_of(*parts):
    h = hashlib.sha256()
    for p in parts:
        h.update(repr(p).encode())
    return h.hexdigest()[:24]
