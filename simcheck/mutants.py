"""Sensitivity and no-false-alarm self-tests: committed source rewrites, applied to a
scratch copy of $VERIF_REPO/bycycle under /dev/shm (removed afterwards). Never
applied to /repo itself."""
import os
import shutil
import subprocess
import sys
import time

from . import core

G = 'bycycle/group/features.py'
O = 'bycycle/objs/fit.py'
F = 'bycycle/features/features.py'
FB = 'bycycle/features/burst.py'
SH = 'bycycle/features/shape.py'
BU = 'bycycle/burst/utils.py'
PB = 'bycycle/plts/burst.py'
EX = 'bycycle/cyclepoints/extrema.py'

IMAP_PROXY = "mapping = pool.imap(partial(_proxy_2d, fs=fs, f_range=f_range,"
IMAP_CF = "mapping = pool.imap(partial(compute_features, fs=fs, f_range=f_range,"

# (id, property, [(file, old, new), ...], what)
BREAKING = [
    ('m11_unordered', 'C11', [(G, IMAP_PROXY, IMAP_PROXY.replace('imap(', 'imap_unordered(')),
                              (G, IMAP_CF, IMAP_CF.replace('imap(', 'imap_unordered('))],
     'results collected in completion order'),
    ('m11_rev_kwargs', 'C11', [(G, "                                    zip(sigs, kwargs))\n\n            else:",
                                "                                    zip(sigs, kwargs[::-1]))\n\n            else:")],
     'per-row option list applied in reverse'),
    ('m11_kwargs0', 'C11', [(G, "                                    zip(sigs, kwargs))\n\n            else:",
                             "                                    zip(sigs, [kwargs[0]] * len(sigs)))\n\n            else:")],
     'first option set used for every row'),
    ('m11_list_threshold', 'C11', [(G, "            if len(kwargs) > 1:\n                # Map iterable",
                                    "            if len(kwargs) > 2:\n                # Map iterable")],
     'two-row option lists fall back to the first option set'),
    ('m11_outside_with', 'C11', [(G, "            dfs_features = list(progress_bar(mapping, progress, len(sigs)))\n\n    elif axis is None:",
                                  "        dfs_features = list(progress_bar(mapping, progress, len(sigs)))\n\n    elif axis is None:")],
     'results consumed after the pool was terminated'),
    ('m11_async_callbacks', 'C11', [(G, "            dfs_features = list(progress_bar(mapping, progress, len(sigs)))\n\n    elif axis is None:",
                                     "            dfs_features = []\n"
                                     "            _func = partial(compute_features, fs=fs, f_range=f_range, return_samples=return_samples)\n"
                                     "            _kw = kwargs if len(kwargs) > 1 else kwargs * len(sigs)\n"
                                     "            _res = [pool.apply_async(_func, (s,), k, callback=dfs_features.append)\n"
                                     "                    for s, k in zip(sigs, _kw)]\n"
                                     "            [r.wait() for r in _res]\n\n    elif axis is None:")],
     'apply_async callbacks append in completion order'),
    ('m11_models_rev', 'C11', [(O, "                bm.load(self.df_features[dim0], sig, self.fs, self.f_range)",
                                "                bm.load(self.df_features[dim0], self.sigs[-1 - dim0], self.fs, self.f_range)")],
     'models[i] loaded with the wrong signal'),
    ('m11_progress_sorted', 'C11', [(G, "            dfs_features = list(progress_bar(mapping, progress, len(sigs)))\n\n    elif axis is None:",
                                     "            dfs_features = list(progress_bar(mapping, progress, len(sigs)))\n"
                                     "            if progress is not None:\n"
                                     "                dfs_features = sorted(dfs_features, key=len)\n\n    elif axis is None:")],
     'result order depends on the progress option'),
    ('m11_futures_as_completed', 'C11', [(G, "            dfs_features = list(progress_bar(mapping, progress, len(sigs)))\n\n    elif axis is None:",
                                       "            from concurrent.futures import ProcessPoolExecutor, as_completed\n"
                                       "            _kw = kwargs if len(kwargs) > 1 else kwargs * len(sigs)\n"
                                       "            with ProcessPoolExecutor(max_workers=n_jobs) as _ex:\n"
                                       "                _futs = [_ex.submit(compute_features, s, fs=fs, f_range=f_range,\n"
                                       "                                    return_samples=return_samples, **k) for s, k in zip(sigs, _kw)]\n"
                                       "                dfs_features = [f.result() for f in as_completed(_futs)]\n\n    elif axis is None:")],
     'concurrent.futures with as_completed: completion order'),
    ('m11_queue_arrival_order', 'C11', [(G, "            dfs_features = list(progress_bar(mapping, progress, len(sigs)))\n\n    elif axis is None:",
        "            _kw = kwargs if len(kwargs) > 1 else kwargs * len(sigs)\n"
        "            _f = partial(compute_features, fs=fs, f_range=f_range, return_samples=return_samples)\n"
        "            import queue as _queue\n"
        "            _q = _queue.Queue()\n"
        "            for s, k in zip(sigs, _kw):\n"
        "                pool.apply_async(_f, (s,), k, callback=_q.put, error_callback=_q.put)\n"
        "            dfs_features = []\n"
        "            for _ in range(len(sigs)):\n"
        "                _r = _q.get()\n"
        "                if isinstance(_r, Exception):\n"
        "                    raise _r\n"
        "                dfs_features.append(_r)\n\n    elif axis is None:")],
     'callbacks feed a queue.Queue; results appended in arrival order'),
    ('m11_njobs_chunk', 'C11', [(G, "                                    zip(sigs, kwargs))\n\n            else:",
                                 "                                    zip(sigs[:n_jobs * 2], kwargs))\n\n            else:")],
     'rows beyond 2*n_jobs dropped (result depends on n_jobs)'),

    ('m12_revert_index', 'C12', [(G, "df_2d[dim0_idx * np.shape(sigs)[1] + dim1_idx]", "df_2d[dim0_idx + dim1_idx]")],
     'original i + j index'),
    ('m12_stride_n0', 'C12', [(G, "df_2d[dim0_idx * np.shape(sigs)[1] + dim1_idx]",
                               "df_2d[dim0_idx * np.shape(sigs)[0] + dim1_idx]")],
     'stride n0 instead of n1'),
    ('m12_no_transpose', 'C12', [(G, "dfs_features = [list(dfs) for dfs in zip(*dfs_features)] if axis == 1 else dfs_features",
                                  "dfs_features = dfs_features")],
     'axis=1 result not transposed back'),
    ('m12_swap_axis0', 'C12', [(G, "sigs = np.swapaxes(sigs, 0, 1) if axis == 1 else sigs",
                                "sigs = np.swapaxes(sigs, 0, 1) if axis == 0 else sigs")],
     'axes swapped for axis=0 instead of axis=1'),
    ('m12_rev_list', 'C12', [(G, "                                zip(sigs, kwargs))\n\n            dfs_features = list(progress_bar(mapping, progress, len(sigs)))\n\n        # Swap",
                              "                                zip(sigs, kwargs[::-1]))\n\n            dfs_features = list(progress_bar(mapping, progress, len(sigs)))\n\n        # Swap")],
     '1-D option list applied in reverse'),
    ('m12_unordered', 'C12', [(G, "mapping = pool.imap(partial(_proxy_3d,", "mapping = pool.imap_unordered(partial(_proxy_3d,")],
     'slices collected in completion order'),
    ('m12_models_swapped', 'C12', [(O, "bm.load(self.df_features[dim0][dim1], sig_, self.fs, self.f_range)",
                                    "bm.load(self.df_features[dim0][dim1], sig[-1 - dim1], self.fs, self.f_range)")],
     'models[i][j] loaded with the wrong signal'),
    ('m12_2dlist_flat_order', 'C12', [(G, "kwargs = list(kwargs.flatten()) if isinstance(kwargs, np.ndarray) else [kwargs]",
                                       "kwargs = list(kwargs.flatten(order='F')) if isinstance(kwargs, np.ndarray) else [kwargs]")],
     '2-D option list flattened column-major'),

    ('m14_revert_copy', 'C14', [(F, "    burst_kwargs = burst_kwargs.copy() if isinstance(burst_kwargs, dict) else burst_kwargs\n    threshold_kwargs = threshold_kwargs.copy()\n", "")],
     'stale min_n_cycles between fits (original defect)'),
    ('m14_skip_refit', 'C14', [(O, "        # Add settings as attributes\n        self.sig = sig\n",
                                "        if self.df_features is not None and self.fs == fs and self.f_range == f_range \\\n"
                                "                and self.sig is not None and np.array_equal(self.sig, sig):\n"
                                "            return\n\n        # Add settings as attributes\n        self.sig = sig\n")],
     'fit skipped when signal/fs/f_range unchanged (ignores edited settings)'),
    ('m14_reduce_inplace', 'C14', [(O, "        reduced_thresholds = {}\n", "        reduced_thresholds = self.thresholds\n")],
     'recompute_edges lowers the stored thresholds in place'),
    ('m14_shorthand_drop', 'C14', [(O, "self.thresholds[k + '_threshold'] = self.thresholds.pop(k)", "self.thresholds.pop(k)")],
     'shorthand threshold names dropped'),
    ('m14_ignore_reduction', 'C14', [(O, "reduced_thresholds[k] = v - reduction", "reduced_thresholds[k] = v")],
     'recompute_edges ignores the reduction'),
    ('m14_load_keeps_sig', 'C14', [(O, "        self.sig = sig\n        self.fs = fs\n        self.f_range = f_range\n        self.df_features = df_features",
                                    "        self.sig = sig if self.sig is None else self.sig\n        self.fs = fs\n        self.f_range = f_range\n        self.df_features = df_features")],
     'load keeps the previously fitted signal'),
    ('m14_getattr_cache', 'C14', [(O, "        elif (self.df_features is not None and key in self.df_features.keys()):\n            return self.df_features[key].values",
                                   "        elif (self.df_features is not None and key in self.df_features.keys()):\n"
                                   "            cache = self.__dict__.setdefault('_colcache', {})\n"
                                   "            if key not in cache:\n"
                                   "                cache[key] = self.df_features[key].values\n"
                                   "            return cache[key]")],
     'attribute access served from a never-invalidated cache'),
    ('m14_defaults_sticky', 'C14', [(O, "        self.return_samples = return_samples\n\n        # Compute features args",
                                     "        self.return_samples = return_samples\n        self._fit_method = None\n\n        # Compute features args"),
                                    (O, "        self.df_features = compute_features(\n            self.sig, self.fs, self.f_range, self.center_extrema,\n            self.burst_method,",
                                     "        if self._fit_method is None:\n            self._fit_method = self.burst_method\n"
                                     "        self.df_features = compute_features(\n            self.sig, self.fs, self.f_range, self.center_extrema,\n            self._fit_method,")],
     'burst method frozen at the first fit'),
    ('m14_group_models_stale', 'C14', [(O, "                self.models[dim0] = bm\n", "                if not isinstance(self.models[dim0], Bycycle) or dim0 > 0:\n                    self.models[dim0] = bm\n"),
                                       (O, "            self.models = np.zeros(len(self.df_features)).tolist()",
                                        "            self.models = self.models if len(self.models) == len(self.df_features) else np.zeros(len(self.df_features)).tolist()")],
     'models[0] kept from the previous group fit'),

    ('m15_inplace_negate', 'C15', [(SH, "        sig = -sig\n", "        sig *= -1\n")],
     'trough centring negates the caller\'s array in place'),
    ('m15_no_deepcopy_2d', 'C15', [(G, "    # Check compute_features_kwargs\n    kwargs = deepcopy(compute_features_kwargs)",
                                    "    # Check compute_features_kwargs\n    kwargs = compute_features_kwargs")],
     'compute_features_2d works on the caller\'s option dicts'),
    ('m15_no_copy_rc', 'C15', [(BU, "df_features_edges = df_features.copy()", "df_features_edges = df_features")],
     'recompute_edges writes into the caller\'s table'),
    ('m15_plot_no_copy', 'C15', [(PB, "thresholds = threshold_kwargs.copy()", "thresholds = threshold_kwargs")],
     'burst plot deletes min_n_cycles from the caller\'s thresholds'),
    ('m15_demean', 'C15', [(EX, "    # Get the original signal and filter lengths\n",
                            "    sig -= np.mean(sig)\n\n    # Get the original signal and filter lengths\n")],
     'find_extrema de-means the caller\'s array in place'),
    ('m15_revert_copy', 'C15', [(FB, "        burst_kwargs = burst_kwargs.copy()\n", "")],
     'compute_burst_features pops fs / f_range from the caller\'s dict (original defect)'),
    ('m15_temp_edit', 'C15', [(SH, "    df_samples = compute_cyclepoints(sig, fs, f_range, **find_extrema_kwargs)\n",
                               "    _fk = find_extrema_kwargs.get('filter_kwargs')\n"
                               "    _old = None if _fk is None else _fk.get('n_cycles')\n"
                               "    if _fk is not None:\n"
                               "        _fk['n_cycles'] = n_cycles\n"
                               "    df_samples = compute_cyclepoints(sig, fs, f_range, **find_extrema_kwargs)\n"
                               "    if _fk is not None:\n"
                               "        if _old is None:\n"
                               "            _fk.pop('n_cycles', None)\n"
                               "        else:\n"
                               "            _fk['n_cycles'] = _old\n")],
     'temporary in-place edit of the caller\'s filter_kwargs, restored at the end (needs interleaving or an interrupt)'),
    ('m15_temp_edit_nocall', 'C15', [(SH, "    df_samples = compute_cyclepoints(sig, fs, f_range, **find_extrema_kwargs)\n",
                                      "    find_extrema_kwargs['_visited'] = True\n"
                                      "    _n_opts = len(find_extrema_kwargs)\n"
                                      "    del find_extrema_kwargs['_visited']\n"
                                      "    df_samples = compute_cyclepoints(sig, fs, f_range, **find_extrema_kwargs)\n")],
     'temporary key in the caller\'s find_extrema_kwargs with no call between write and removal '
     '(only line-granularity pre-emption or interruption can see it)'),
    ('m15_revert_alias_fix', 'C15', [(G, "    kwargs = [kwargs] if isinstance(kwargs, dict) else [kwarg.copy() for kwarg in kwargs]\n",
                                      "    kwargs = [kwargs] if isinstance(kwargs, dict) else list(kwargs)\n")],
     'option list that repeats one dict object behaves differently from equal-valued dicts (original defect)'),
    ('m15_module_cache', 'C15', [(F, "    # Compute shape features for each cycle\n    df_shape_features = compute_shape_features(sig, fs, f_range, center_extrema=center_extrema,\n                                               find_extrema_kwargs=find_extrema_kwargs)\n",
                                  "    # Compute shape features for each cycle\n"
                                  "    _key = (len(sig), float(sig[0]), fs, tuple(f_range), center_extrema)\n"
                                  "    if _key not in _SHAPE_CACHE:\n"
                                  "        _SHAPE_CACHE[_key] = compute_shape_features(sig, fs, f_range, center_extrema=center_extrema,\n"
                                  "                                                   find_extrema_kwargs=find_extrema_kwargs)\n"
                                  "    df_shape_features = _SHAPE_CACHE[_key].copy()\n"),
                                 (F, "def compute_features(sig, fs, f_range, center_extrema='peak'", "_SHAPE_CACHE = {}\n\n\ndef compute_features(sig, fs, f_range, center_extrema='peak'")],
     'module-level cache keyed without find_extrema_kwargs: result depends on earlier calls'),
    ('m15_epoch_inplace', 'C15', [('bycycle/utils/dataframes.py', "        df_single = df_features.iloc[idx_range]\n        df_single.reset_index(drop=True, inplace=True)",
                                   "        df_single = df_features.iloc[idx_range]\n        df_features['sample_last_zerox_decay'] = df_features['sample_last_zerox_decay'] * 1\n        df_features.loc[df_features.index[idx_range], 'epoch'] = first_idx\n        df_single.reset_index(drop=True, inplace=True)")],
     'epoch_df adds a column to the caller\'s table'),
]

# behaviour-preserving rewrites: every check must stay silent
PRESERVING = [
    ('p_imap_chunksize', [(G, "                                    zip(sigs, kwargs))\n\n            else:",
                           "                                    zip(sigs, kwargs), chunksize=2)\n\n            else:")],
     'imap with chunksize=2'),
    ('p_map_instead_of_imap', [(G, IMAP_CF, IMAP_CF.replace('pool.imap(', 'pool.map('))],
     'pool.map (ordered, eager) for shared options'),
    ('p_dict_copy_style', [(F, "    burst_kwargs = burst_kwargs.copy() if isinstance(burst_kwargs, dict) else burst_kwargs\n    threshold_kwargs = threshold_kwargs.copy()\n",
                            "    burst_kwargs = dict(burst_kwargs) if isinstance(burst_kwargs, dict) else burst_kwargs\n    threshold_kwargs = {**threshold_kwargs}\n")],
     'dict() / {**d} instead of .copy()'),
    ('p_presized_list', [(G, "            dfs_features = list(progress_bar(mapping, progress, len(sigs)))\n\n    elif axis is None:",
                          "            dfs_features = [None] * len(sigs)\n"
                          "            for _i, _df in enumerate(progress_bar(mapping, progress, len(sigs))):\n"
                          "                dfs_features[_i] = _df\n\n    elif axis is None:")],
     'results stored into a pre-sized list by index'),
    ('p_unordered_with_index', [(G, IMAP_CF + "\n                                            return_samples=return_samples,\n                                            **kwargs[0]),\n                                    sigs)\n",
                                 "_f = partial(compute_features, fs=fs, f_range=f_range, return_samples=return_samples, **kwargs[0])\n"
                                 "                _pending = [pool.apply_async(_f, (s,)) for s in sigs]\n"
                                 "                mapping = (r.get() for r in _pending)\n")],
     'apply_async per row, collected by position'),
    ('p_ctor_copies_dicts', [(O, "            self.thresholds = thresholds\n", "            self.thresholds = dict(thresholds) if isinstance(thresholds, dict) else thresholds\n"),
                             (O, "        self.burst_kwargs = {} if burst_kwargs is None else burst_kwargs",
                              "        self.burst_kwargs = {} if burst_kwargs is None else dict(burst_kwargs)")],
     'constructor stores copies of the option dicts'),
    ('p_fit_resets_table', [(O, "        # Add settings as attributes\n        self.sig = sig\n",
                             "        self.df_features = None\n\n        # Add settings as attributes\n        self.sig = sig\n")],
     'fit clears the old table before recomputing'),
    ('p_deepcopy_position', [(G, "    n_jobs = cpu_count() if n_jobs == -1 else n_jobs\n\n    # Convert list of kwargs to array to check dimensions\n    kwargs = deepcopy(compute_features_kwargs)",
                              "    # Convert list of kwargs to array to check dimensions\n    kwargs = deepcopy(compute_features_kwargs)\n    n_jobs = cpu_count() if n_jobs == -1 else n_jobs\n")],
     'deepcopy moved before the n_jobs line'),
    ('p_models_copy_tables', [(O, "                bm.load(self.df_features[dim0], sig, self.fs, self.f_range)",
                               "                bm.load(self.df_features[dim0].copy(), sig.copy(), self.fs, self.f_range)")],
     'models hold copies of the tables and signals'),
    ('p_futures_in_order', [(G, "            dfs_features = list(progress_bar(mapping, progress, len(sigs)))\n\n    elif axis is None:",
                                       "            from concurrent.futures import ProcessPoolExecutor, as_completed\n"
                                       "            _kw = kwargs if len(kwargs) > 1 else kwargs * len(sigs)\n"
                                       "            with ProcessPoolExecutor(max_workers=n_jobs) as _ex:\n"
                                       "                _futs = [_ex.submit(compute_features, s, fs=fs, f_range=f_range,\n"
                                       "                                    return_samples=return_samples, **k) for s, k in zip(sigs, _kw)]\n"
                                       "                dfs_features = [f.result() for f in _futs]\n\n    elif axis is None:")],
     'concurrent.futures, results taken in submission order'),
    ('p_poll_ready', [(G, "            dfs_features = list(progress_bar(mapping, progress, len(sigs)))\n\n    elif axis is None:",
        "            _kw = kwargs if len(kwargs) > 1 else kwargs * len(sigs)\n"
        "            _f = partial(compute_features, fs=fs, f_range=f_range, return_samples=return_samples)\n"
        "            import time as _time\n"
        "            _res = [pool.apply_async(_f, (s,), k) for s, k in zip(sigs, _kw)]\n"
        "            while not all(r.ready() for r in _res):\n"
        "                _time.sleep(0.0005)\n"
        "            dfs_features = [r.get() for r in _res]\n\n    elif axis is None:")],
     'apply_async, polling ready() with sleep, results read by position'),
    ('p_queue_by_index', [(G, "            dfs_features = list(progress_bar(mapping, progress, len(sigs)))\n\n    elif axis is None:",
        "            _kw = kwargs if len(kwargs) > 1 else kwargs * len(sigs)\n"
        "            _f = partial(compute_features, fs=fs, f_range=f_range, return_samples=return_samples)\n"
        "            import queue as _queue\n"
        "            _q = _queue.Queue()\n"
        "            for _i, (s, k) in enumerate(zip(sigs, _kw)):\n"
        "                pool.apply_async(_f, (s,), k, callback=lambda r, _i=_i: _q.put((_i, r)),\n"
        "                                 error_callback=lambda e, _i=_i: _q.put((_i, e)))\n"
        "            dfs_features = [None] * len(sigs)\n"
        "            for _ in range(len(sigs)):\n"
        "                _i, _r = _q.get()\n"
        "                if isinstance(_r, Exception):\n"
        "                    raise _r\n"
        "                dfs_features[_i] = _r\n\n    elif axis is None:")],
     'callbacks feed a queue.Queue with (index, result); placed by index'),
    ('p_event_callbacks', [(G, "            dfs_features = list(progress_bar(mapping, progress, len(sigs)))\n\n    elif axis is None:",
        "            _kw = kwargs if len(kwargs) > 1 else kwargs * len(sigs)\n"
        "            _f = partial(compute_features, fs=fs, f_range=f_range, return_samples=return_samples)\n"
        "            import threading as _th\n"
        "            _done, _lock, _state = _th.Event(), _th.Lock(), {'left': len(sigs), 'err': None}\n"
        "            dfs_features = [None] * len(sigs)\n"
        "            def _store(_i, _r, _is_err=False):\n"
        "                with _lock:\n"
        "                    if _is_err:\n"
        "                        _state['err'] = _state['err'] or _r\n"
        "                    else:\n"
        "                        dfs_features[_i] = _r\n"
        "                    _state['left'] -= 1\n"
        "                    if _state['left'] == 0:\n"
        "                        _done.set()\n"
        "            for _i, (s, k) in enumerate(zip(sigs, _kw)):\n"
        "                pool.apply_async(_f, (s,), k, callback=lambda r, _i=_i: _store(_i, r),\n"
        "                                 error_callback=lambda e, _i=_i: _store(_i, e, True))\n"
        "            if len(sigs):\n"
        "                _done.wait()\n"
        "            if _state['err'] is not None:\n"
        "                raise _state['err']\n\n    elif axis is None:")],
     'callbacks store by index and set a threading.Event when everything is in'),
    ('p_object_defaults_changed', [(O, "                'monotonicity_threshold': .8,\n                'min_n_cycles': 3\n            }\n        elif thresholds is None and burst_method == 'amp':",
                                    "                'monotonicity_threshold': .7,\n                'min_n_cycles': 2\n            }\n        elif thresholds is None and burst_method == 'amp':")],
     'the objects choose other default thresholds (which defaults is not part of the property)'),
    ('p_private_keys', [(O, "        self.df_features = compute_features(\n            self.sig,",
                         "        self.__dict__['_n_fits'] = self.__dict__.get('_n_fits', 0) + 1\n        self.df_features = compute_features(\n            self.sig,")],
     'object keeps a private fit counter'),
]


def scratch_copy(tag):
    root = '/dev/shm/verif-mut-%s-%d' % (tag, os.getpid())
    if os.path.exists(root):
        shutil.rmtree(root)
    os.makedirs(root)
    shutil.copytree(os.path.join(core.REPO, 'bycycle'), os.path.join(root, 'bycycle'),
                    ignore=shutil.ignore_patterns('__pycache__', 'tests'))
    return root


def apply(root, edits):
    for rel, old, new in edits:
        path = os.path.join(root, rel)
        with open(path) as f:
            s = f.read()
        if s.count(old) != 1:
            raise RuntimeError('pattern for %s matches %d times' % (rel, s.count(old)))
        with open(path, 'w') as f:
            f.write(s.replace(old, new))


def run_check(root, prop, runs=None, timeout=900):
    env = dict(os.environ)
    env['VERIF_REPO'] = root
    env['VERIF_OUT'] = os.path.join(root, 'out')
    env['VERIF_EVIDENCE_DIR'] = os.path.join(root, 'evidence')
    if runs:
        env['VERIF_RUNS'] = str(runs)
    t0 = time.time()
    p = subprocess.run([sys.executable, os.path.join(core.VERIF, 'run.py'), 'check', prop, 'quick'],
                       capture_output=True, text=True, env=env, timeout=timeout)
    return p.returncode, p.stdout, p.stderr, time.time() - t0


def main(which='all', only=None):
    results = []
    ok = True
    if which in ('all', 'breaking'):
        for mid, prop, edits, what in BREAKING:
            if only and only not in mid:
                continue
            root = scratch_copy(mid)
            try:
                apply(root, edits)
                rc, out, err, dt = run_check(root, prop)
                caught = rc == 1 and 'VIOLATION property=%s' % prop in out
                replay_ok = None
                if caught:
                    path = out.split('replay=')[1].split()[0]
                    env = dict(os.environ, VERIF_REPO=root)
                    r = subprocess.run([sys.executable, os.path.join(core.VERIF, 'run.py'), 'replay', path],
                                       capture_output=True, text=True, env=env, timeout=600)
                    replay_ok = r.returncode == 1
                cls = [ln for ln in err.splitlines() if ln.startswith('violation class=')]
                results.append((mid, prop, caught, replay_ok, round(dt, 1), cls[0][:150] if cls else err[-200:]))
                if not caught or not replay_ok:
                    ok = False
            finally:
                shutil.rmtree(root, ignore_errors=True)
            print('%-24s %s caught=%s replay=%s %5.1fs  %s' % results[-1], file=sys.stderr)
    if which in ('all', 'preserving'):
        for mid, edits, what in PRESERVING:
            if only and only not in mid:
                continue
            root = scratch_copy(mid)
            try:
                apply(root, edits)
                for prop in ('C11', 'C12', 'C14', 'C15'):
                    rc, out, err, dt = run_check(root, prop)
                    silent = rc == 0 and 'VIOLATION' not in out
                    results.append((mid, prop, silent, None, round(dt, 1), '' if silent else (out + err)[-300:]))
                    if not silent:
                        ok = False
                    print('%-24s %s silent=%s %5.1fs %s' % (mid, prop, silent, dt, results[-1][5]), file=sys.stderr)
            finally:
                shutil.rmtree(root, ignore_errors=True)
    return 0 if ok else 1
