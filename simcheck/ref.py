"""The stateless reference model: documented settings semantics + the functional
single-signal API, always called on fresh copies."""
import copy
import sys
import types

from .oracle import outcome

DEFAULT_THRESHOLDS = {
    'cycles': {'amp_fraction_threshold': 0., 'amp_consistency_threshold': .5,
               'period_consistency_threshold': .5, 'monotonicity_threshold': .8,
               'min_n_cycles': 3},
    'amp': {'burst_fraction_threshold': 1, 'min_n_cycles': 3},
}
DEFAULT_FIND_EXTREMA = {'filter_kwargs': {'n_cycles': 3}}


def expand_thresholds(th):
    """Documented shorthand rule: k -> k + '_threshold' unless it already ends in
    '_threshold' or is 'min_n_cycles'."""
    out = {}
    for k, v in th.items():
        if not k.endswith('_threshold') and k != 'min_n_cycles':
            out[k + '_threshold'] = v
        else:
            out[k] = v
    return out


def object_settings(ctor):
    """Constructor arguments (JSON spec) -> the settings a fit is documented to use."""
    method = ctor.get('burst_method', 'cycles')
    th = ctor.get('thresholds')
    if th is None:
        th = copy.deepcopy(DEFAULT_THRESHOLDS.get(method))
    elif isinstance(th, dict):
        th = expand_thresholds(copy.deepcopy(th))
    fek = ctor.get('find_extrema_kwargs')
    fek = copy.deepcopy(DEFAULT_FIND_EXTREMA) if fek is None else copy.deepcopy(fek)
    bk = ctor.get('burst_kwargs')
    bk = {} if bk is None else copy.deepcopy(bk)
    return {'center_extrema': ctor.get('center_extrema', 'peak'), 'burst_method': method,
            'burst_kwargs': bk, 'threshold_kwargs': th, 'find_extrema_kwargs': fek,
            'return_samples': ctor.get('return_samples', True)}


def _object_defaults_impl(ctor_live, kind):
    """What a freshly constructed object holds for the settings the caller left out."""
    import warnings
    warnings.simplefilter('ignore')
    from bycycle.objs import Bycycle, BycycleGroup
    cls = BycycleGroup if kind == 'group' else Bycycle
    obj = cls(center_extrema=ctor_live['center_extrema'], burst_method=ctor_live['burst_method'],
              burst_kwargs=ctor_live['burst_kwargs'], thresholds=ctor_live['thresholds'],
              find_extrema_kwargs=ctor_live['find_extrema_kwargs'],
              return_samples=ctor_live['return_samples'])
    out = {}
    for key, attr in (('thresholds', 'thresholds'), ('burst_kwargs', 'burst_kwargs'),
                      ('find_extrema_kwargs', 'find_extrema_kwargs')):
        if ctor_live.get(key) is None and isinstance(getattr(obj, attr, None), dict):
            out[key] = copy.deepcopy(getattr(obj, attr))
    return out


def object_settings_checked(ctor, kind='single'):
    """object_settings, but the values of settings the caller did *not* give (None) are taken
    from a freshly constructed object (in a pristine fork): which defaults an object chooses is
    not part of the property, that every fit uses them is."""
    from . import pristine
    s = object_settings(ctor)
    try:
        c = live({k: ctor.get(k) for k in ('center_extrema', 'burst_method', 'burst_kwargs', 'thresholds',
                                           'find_extrema_kwargs', 'return_samples')})
        c.setdefault('center_extrema', 'peak')
        c.setdefault('burst_method', 'cycles')
        if c.get('center_extrema') is None:
            c['center_extrema'] = 'peak'
        if c.get('burst_method') is None:
            c['burst_method'] = 'cycles'
        if c.get('return_samples') is None:
            c['return_samples'] = True
        d = pristine.call('simcheck.ref:_object_defaults_impl', c, kind)
    except Exception:
        return s
    if 'thresholds' in d:
        s['threshold_kwargs'] = d['thresholds']
    if 'burst_kwargs' in d:
        s['burst_kwargs'] = d['burst_kwargs']
    if 'find_extrema_kwargs' in d:
        s['find_extrema_kwargs'] = d['find_extrema_kwargs']
    return s


def live(settings):
    """Fresh deep copy with tuples where the API documents tuples."""
    s = copy.deepcopy(settings)
    bk = s.get('burst_kwargs')
    if isinstance(bk, dict) and isinstance(bk.get('amp_threshes'), list):
        bk['amp_threshes'] = tuple(bk['amp_threshes'])
    return s


def _ref_features_impl(sig, fs, f_range, kw, rs):
    from bycycle.features import compute_features
    import warnings
    warnings.simplefilter('ignore')
    return outcome(compute_features, sig, fs, f_range, return_samples=rs, **kw)


def ref_features(sig, fs, f_range, settings, return_samples=None):
    """Outcome of the functional single-signal analysis on fresh copies of everything,
    evaluated in a pristine fork (no call history)."""
    from . import pristine
    kw = live(settings)
    rs = kw.pop('return_samples', True)
    if return_samples is not None:
        rs = return_samples
    f_range = list(f_range) if isinstance(f_range, list) else tuple(f_range)
    return pristine.call('simcheck.ref:_ref_features_impl', sig.copy(), fs, f_range, kw, rs)


def _ref_recompute_impl(df, th):
    from bycycle.burst.utils import recompute_edges
    return outcome(recompute_edges, df, th)


def ref_recompute(df, thresholds, reduction):
    """Functional edge recomputation with every *_threshold lowered by `reduction`."""
    from . import pristine
    r = 0 if reduction is None else reduction
    th = {k: (v - r if k.endswith('_threshold') else v) for k, v in copy.deepcopy(thresholds).items()}
    return pristine.call('simcheck.ref:_ref_recompute_impl', df.copy(), th)


def _ref_group_impl(ndim, sigs, fs, f_range, kw, axis, rs):
    """Functional group call on fresh copies, n_jobs=1, default (fifo) schedule."""
    from bycycle.group import compute_features_2d, compute_features_3d
    from .simpool import Sim, Installed
    from .rng import Tape
    import warnings
    warnings.simplefilter('ignore')
    func = compute_features_2d if ndim == 2 else compute_features_3d
    with Installed(Sim({'mode': 'fifo'}, Tape(0))):
        return outcome(func, sigs, fs, f_range, compute_features_kwargs=kw, axis=axis,
                       return_samples=rs, n_jobs=1)


def ref_group(sigs, fs, f_range, kw, axis, rs):
    from . import pristine
    f_range = list(f_range) if isinstance(f_range, list) else tuple(f_range)
    return pristine.call('simcheck.ref:_ref_group_impl', sigs.ndim, sigs.copy(), fs, f_range,
                         copy.deepcopy(kw), axis, rs)


class TqdmStub:
    """10-line stand-in for tqdm (not installed in the sandbox): wraps the iterable lazily."""

    def __init__(self):
        self.bars = []

    def install(self, present):
        self._saved = {k: sys.modules.get(k, 'absent') for k in ('tqdm', 'tqdm.notebook')}
        if not present:
            sys.modules['tqdm'] = None
            sys.modules['tqdm.notebook'] = None
            return
        stub = self

        class tqdm:
            def __init__(self, iterable=None, desc=None, total=None, **kw):
                self.iterable, self.total, self.n = iterable, total, 0
                stub.bars.append(self)

            def __iter__(self):
                for x in self.iterable:
                    self.n += 1
                    yield x

            def __len__(self):
                return self.total

        for name in ('tqdm', 'tqdm.notebook'):
            m = types.ModuleType(name)
            m.tqdm = tqdm
            sys.modules[name] = m

    def uninstall(self):
        for k, v in self._saved.items():
            if v == 'absent':
                sys.modules.pop(k, None)
            else:
                sys.modules[k] = v
