"""C15 - analysis functions are pure: no input mutation, no call-history dependence.

Workload = sessions of public API calls that draw their arguments *by reference*
from one shared pool of objects (signals, option dicts, tables returned by earlier
calls). Oracle = pure reference interpreter (every call re-evaluated on fresh deep
copies of pristine values) + fingerprints of every pool object after every call +
a final repeat pass. Configurations: one sequential session (optionally with
interrupts injected at call seams) or 2-3 baton-interleaved sessions sharing the pool."""
import copy
import random

import numpy as np

from . import seams, pristine
from .core import Result, quiet, digest_of
from .oracle import diff, fingerprint, outcome_diff
from .simcfg import gen_sim_cfg
from .simpool import Sim, Installed, SimDeadlock
from .workload import thorough, gen_band, gen_signal_spec, build_signal, gen_thresholds, \
    gen_burst_kwargs, gen_find_extrema_kwargs

ID = 'C15'
RULE = ('one evaluation = one seeded session (3..12 calls, or 2-3 interleaved sessions) of public bycycle '
        'API calls drawing their arguments by reference from one shared pool (signals, 2-D/3-D arrays, '
        'option dicts, nested option dicts and lists, tables returned by earlier calls); two evaluations '
        'are the same case when their abstract histories (sequence of session, function, argument names, '
        'outcome kind, and baton switches) are equal; a case is non-trivial when some pool object is used '
        'by at least two calls')
REAL = ['compute_features, compute_shape_features, compute_cyclepoints, find_extrema, find_zerox, '
        'extrema_interpolated_phase, compute_burst_features and the five per-feature functions, '
        'compute_features_2d/3d, recompute_edges, limit_df, epoch_df, drop_samples_df, the plotting '
        'functions (Agg backend) - all real code', 'pickle boundary of the simulated pool']
STUB = ['multiprocessing pool for group calls (SimPool)', 'caller sessions are real threads serialised by a '
        'baton whose holder is chosen by the seeded tape; yields and interrupts happen at call seams']
ASSUMPTIONS = [
    'a call that raises (by itself or through an injected interrupt) must leave its arguments untouched as well',
    'interleaving is at call-seam granularity (wrappers around module-level bycycle / neurodsp functions), '
    'not bytecode granularity; plotting is never interleaved (matplotlib is not thread-safe)',
    'functions that document in-place behaviour (detect_bursts_*, split_samples_df, flatten_dfs, '
    'rename_extrema_df) are not called directly',
]
PROGRESS_KEYS = ('cycles', 'amp')

CYC_TH = ('amp_fraction_threshold', 'amp_consistency_threshold', 'period_consistency_threshold',
          'monotonicity_threshold')


# =======================================================================================
# plan generation

def _gen_dicts(wl, band):
    d = {}
    d['THC0'] = gen_thresholds(wl, 'cycles')
    d['THC1'] = dict(gen_thresholds(wl, 'cycles'), min_n_cycles=wl.choice((2, 3, 4)))
    d['THC2'] = {'amp_consistency_threshold': 0.99, 'period_consistency_threshold': 0.99,
                 'monotonicity_threshold': 0.99}        # nothing is a burst
    d['THA0'] = gen_thresholds(wl, 'amp')
    d['THA1'] = dict(gen_thresholds(wl, 'amp'), min_n_cycles=wl.choice((1, 2, 4, 5)))
    d['BK0'] = gen_burst_kwargs(wl, 'amp') or {}
    d['BK1'] = {}
    base = {'fs': band['fs'], 'f_range': list(band['f_range'])}
    d['BKF0'] = dict(base)
    d['BKF1'] = dict(base, **(gen_burst_kwargs(wl, 'amp') or {}))
    d['FE0'] = gen_find_extrema_kwargs(wl) or {'filter_kwargs': {'n_cycles': 3}}
    d['FE1'] = {'filter_kwargs': '@FK0'}
    d['FE2'] = {'boundary': wl.choice((0, 2, 5, 10))}          # no filter_kwargs entry
    d['FK0'] = {'n_cycles': wl.choice((3, 3, 4))}
    # compute_features_kwargs dicts nest references to the dicts above
    for i in range(3):
        m = wl.choice(('cycles', 'amp'))
        ck = {}
        if wl.random() < 0.6:
            ck['center_extrema'] = wl.choice(('peak', 'trough'))
        if m == 'amp' or wl.random() < 0.4:
            ck['burst_method'] = m
        ck['threshold_kwargs'] = '@' + wl.choice(('THC0', 'THC1') if m == 'cycles' else ('THA0', 'THA1'))
        if m == 'amp' and wl.random() < 0.8:
            ck['burst_kwargs'] = '@' + wl.choice(('BK0', 'BK1'))
        if wl.random() < 0.4:
            ck['find_extrema_kwargs'] = '@' + wl.choice(('FE0', 'FE1'))
        d['CK%d' % i] = ck
    return d


def gen_plan(wl, fr, idx):
    band = gen_band(wl)
    plan = {'band': band}
    nsig = wl.randint(1, 3)
    plan['signals'] = [gen_signal_spec(wl, band, k) for k in range(nsig)]
    for spec in plan['signals']:
        if wl.random() < 0.2:
            spec['variant'] = wl.choice(('f32', 'strided', 'strided', 'int'))
    n2 = wl.randint(2, 3)
    plan['array2d'] = [gen_signal_spec(wl, band, 10 + k) for k in range(n2)]
    shape = list(wl.choice([(1, 2), (2, 1), (2, 2)]))
    plan['array3d'] = {'shape': shape,
                       'specs': [gen_signal_spec(wl, band, 20 + k) for k in range(shape[0] * shape[1])]}
    plan['dicts'] = _gen_dicts(wl, band)
    # a per-row option list for the 2-D array, kept by the caller and reused as one object
    plan['dicts']['CKL0'] = ['@CK%d' % wl.randrange(3) for _ in range(n2)]
    r = wl.random()
    if r < 0.55:
        plan['config'] = 'sequential'
        nsess = 1
    else:
        plan['config'] = 'interleaved'
        nsess = wl.choice((2, 2, 3))
    plan['faults'] = {'interrupts': plan['config'] == 'sequential' and wl.random() < 0.35,
                      'natural': wl.random() < 0.3}
    plan['repeat'] = wl.random() < 0.5
    plan['granularity'] = 'line' if wl.random() < 0.3 else 'seam'
    plan['yield'] = [wl.choice((1, 2, 4)), 8] if plan['granularity'] == 'seam' else [1, wl.choice((50, 150, 400))]
    plots = plan['config'] == 'sequential' and wl.random() < 0.3
    plan['sessions'] = [_gen_session(wl, plan, s, plots) for s in range(nsess)]
    plan['sim'] = gen_sim_cfg(fr, 4)
    return plan


def _gen_session(wl, plan, s, plots):
    band = plan['band']
    nsig = len(plan['signals'])
    n2 = len(plan['array2d'])
    shape = plan['array3d']['shape']
    ops = []
    avail = []      # result tags

    def rname():
        return 'R%d.%d' % (s, len(ops))

    def pick(kind=None, **req):
        c = [t for t in avail if (kind is None or t['kind'] in kind)
             and all(t.get(k) == v for k, v in req.items())]
        return wl.choice(c) if c else None

    n_ops = wl.randint(3, 12)
    if thorough() and wl.random() < 0.3:
        n_ops = wl.randint(13, 20)
    natural = plan['faults']['natural']
    n_plots = 0
    while len(ops) < n_ops:
        r = wl.random()
        sig = 'S%d' % wl.randrange(nsig)
        if plan['config'] == 'sequential' and ops and wl.random() < 0.06:
            # (never with interleaved sessions: editing a dict another session is using is the
            # caller's own race, not the library's)
            ops.append(_gen_user_edit(wl))
            continue
        if r < 0.30 or not avail:
            method = wl.choice(('cycles', 'amp', 'amp'))
            center = wl.choice(('peak', 'trough'))
            rs = wl.random() < 0.8
            th = wl.choice((None, 'THC0', 'THC1', 'THC2')) if method == 'cycles' else wl.choice((None, 'THA0', 'THA1', 'THA1'))
            bk = wl.choice((None, 'BK0', 'BK0', 'BK1')) if method == 'amp' else wl.choice((None, 'BK1'))
            fe = wl.choice((None, None, 'FE0', 'FE1', 'FE2'))
            op = {'fn': 'cf', 'sig': sig, 'center': center, 'method': method, 'th': th, 'bk': bk,
                  'fe': fe, 'rs': rs}
            if natural and wl.random() < 0.2:
                op['bad'] = wl.choice(('amp_threshes', 'th_range', 'center', 'method'))
            elif wl.random() < 0.25:
                op['positional'] = True
            ops.append(op)
            if not op.get('bad'):
                avail.append({'name': rname_prev(s, ops), 'kind': 'features', 'sig': sig, 'center': center,
                              'method': method, 'samples': rs})
        elif r < 0.37:
            center = wl.choice(('peak', 'trough'))
            ops.append({'fn': 'shape', 'sig': sig, 'center': center, 'fe': wl.choice((None, 'FE0', 'FE1', 'FE2')),
                        'n_cycles': wl.choice((3, 3, 4, 5))})
            avail.append({'name': rname_prev(s, ops), 'kind': 'shape', 'sig': sig, 'center': center,
                          'samples': True})
        elif r < 0.41:
            ops.append({'fn': 'cyclepoints', 'sig': sig, 'fe': wl.choice((None, 'FE0', 'FE1'))})
            avail.append({'name': rname_prev(s, ops), 'kind': 'samples', 'sig': sig, 'center': 'peak',
                          'samples': True})
        elif r < 0.425:
            ops.append({'fn': 'flankzx', 'sig': sig, 'flank': wl.choice(('rise', 'decay')),
                        'midpoint': wl.choice((None, None, 0.3))})
        elif r < 0.46:
            op = {'fn': 'extrema', 'sig': sig, 'boundary': wl.choice((0, 0, 3)), 'fk': wl.choice((None, 'FK0'))}
            if wl.random() < 0.3:
                op['first'] = wl.choice(('trough', None))
            if wl.random() < 0.2:
                op['pad'] = False
            ops.append(op)
            if 'first' not in op:
                avail.append({'name': rname_prev(s, ops), 'kind': 'extrema', 'sig': sig})
        elif r < 0.53:
            # extrema -> zerox -> phase chain on one signal (missing links are inserted)
            e = pick(('extrema',))
            if e is None:
                ops.append({'fn': 'extrema', 'sig': sig, 'boundary': 0, 'fk': wl.choice((None, 'FK0'))})
                e = {'name': rname_prev(s, ops), 'kind': 'extrema', 'sig': sig}
                avail.append(e)
            z = pick(('zerox',), ext=e['name'])
            if z is None or r < 0.49:
                ops.append({'fn': 'zerox', 'sig': e['sig'], 'ext': e['name']})
                z = {'name': rname_prev(s, ops), 'kind': 'zerox', 'sig': e['sig'], 'ext': e['name']}
                avail.append(z)
            if r >= 0.49:
                ops.append({'fn': 'phase', 'sig': z['sig'], 'ext': z['ext'],
                            'zx': z['name'] if wl.random() < 0.75 else None})
        elif r < 0.61:
            t = pick(('shape',))
            if t:
                method = wl.choice(('cycles', 'amp', 'amp'))
                bkf = wl.choice(('BKF0', 'BKF1')) if method == 'amp' else wl.choice((None, 'BK1'))
                ops.append({'fn': 'burstfeat', 'table': t['name'], 'sig': t['sig'], 'method': method, 'bk': bkf})
        elif r < 0.66:
            t = pick(('shape', 'features', 'samples'), samples=True)
            if t:
                fn = wl.choice(('ampfrac', 'ampcons', 'percons', 'mono', 'bfrac')) if t['kind'] != 'samples' \
                    else wl.choice(('mono', 'bfrac'))
                op = {'fn': fn, 'table': t['name'], 'sig': t['sig']}
                if fn in ('ampcons', 'percons') and wl.random() < 0.5:
                    op['direction'] = wl.choice(('next', 'last'))
                if fn == 'bfrac' and wl.random() < 0.5:
                    op['bk'] = wl.choice(('BK0', 'BK1'))        # **shared burst options
                ops.append(op)
        elif r < 0.69:
            t = pick(('samples',))
            if t is None:
                ops.append({'fn': 'cyclepoints', 'sig': sig, 'fe': wl.choice((None, 'FE0', 'FE1'))})
                t = {'name': rname_prev(s, ops), 'kind': 'samples', 'sig': sig, 'center': 'peak', 'samples': True}
                avail.append(t)
            ops.append({'fn': wl.choice(('durations', 'extvolt', 'symmetry', 'bandamp')),
                        'table': t['name'], 'sig': t['sig']})
        elif r < 0.74:
            ck = wl.choice((None, 'CK0', 'CK1', 'CK2', 'list', 'CKL0', 'CKL0'))
            axis = wl.choice((0, 0, None))
            if ck == 'list':
                ck = ['CK%d' % wl.randrange(3) for _ in range(n2)]
            ops.append({'fn': 'cf2d', 'ck': ck, 'axis': axis, 'rs': wl.random() < 0.7,
                        'n_jobs': wl.choice((1, 2, 3, -1))})
        elif r < 0.79:
            axis = wl.choice((0, 1, '01'))
            ck = wl.choice((None, 'CK0', 'CK1', 'CK2', 'list'))
            if ck == 'list':
                if axis == '01':
                    ck = [['CK%d' % wl.randrange(3) for _ in range(shape[1])] for _ in range(shape[0])]
                else:
                    ck = ['CK%d' % wl.randrange(3) for _ in range(shape[0] if axis == 0 else shape[1])]
            ops.append({'fn': 'cf3d', 'ck': ck, 'axis': axis, 'rs': wl.random() < 0.7,
                        'n_jobs': wl.choice((1, 2, -1))})
        elif r < 0.85:
            t = pick(('features',), method='cycles')
            if t:
                ops.append({'fn': 'recompute', 'table': t['name'], 'th': wl.choice(('THC0', 'THC1'))})
                avail.append(dict(t, name=rname_prev(s, ops)))
        elif r < 0.89:
            t = pick(('features', 'shape'), samples=True)
            if t:
                dur = band['T'] / band['fs']
                # windows that cut cycles off, and windows that keep every cycle (tiny start,
                # stop beyond the signal or omitted)
                a = wl.choice((0, round(2.0 / band['fs'], 4), round(wl.uniform(0.01, 0.06), 3),
                               round(wl.uniform(0, dur * 0.4), 2), round(wl.uniform(0, dur * 0.4), 2)))
                b = wl.choice((None, round(dur + 1, 2), round(dur, 3),
                               round(a + wl.uniform(dur * 0.3, dur * 0.6), 2),
                               round(a + wl.uniform(dur * 0.3, dur * 0.6), 2)))
                ops.append({'fn': 'limit', 'table': t['name'], 'start': a, 'stop': b,
                            'reset': wl.random() < 0.6})
                avail.append(dict(t, name=rname_prev(s, ops)))      # a limited table is a table again
        elif r < 0.92:
            t = pick(('features', 'shape'), samples=True)
            if t:
                ops.append({'fn': 'epoch', 'table': t['name'], 'k': wl.choice((2, 3))})
        elif r < 0.94:
            t = pick(('features', 'shape', 'samples'))
            if t:
                ops.append({'fn': 'drop', 'table': t['name']})
                avail.append(dict(t, name=rname_prev(s, ops), samples=False))
        elif plots and n_plots < 2:
            t = pick(('features',), samples=True, method='cycles') or pick(('features',), samples=True)
            if t is None:
                # make sure a plottable table exists
                ops.append({'fn': 'cf', 'sig': sig, 'center': wl.choice(('peak', 'trough')), 'method': 'cycles',
                            'th': wl.choice(('THC0', 'THC1')), 'bk': None, 'fe': None, 'rs': True})
                t = {'name': rname_prev(s, ops), 'kind': 'features', 'sig': sig, 'center': ops[-1]['center'],
                     'method': 'cycles', 'samples': True}
                avail.append(t)
            if t:
                kind = wl.choice(('summary', 'summary', 'param', 'cpdf', 'hist', 'cat'))
                if kind in ('summary', 'param') and t['method'] != 'cycles':
                    kind = 'cpdf'
                op = {'fn': 'plot_' + kind, 'table': t['name'], 'sig': t['sig']}
                if kind == 'summary':
                    op['th'] = wl.choice(('THC0', 'THC1'))
                    op['only_result'] = wl.random() < 0.5
                ops.append(op)
                n_plots += 1
    if plan['config'] == 'sequential' and wl.random() < 0.25:
        # the same call twice on the same array object, whose contents the caller rewrites in between
        method = wl.choice(('cycles', 'amp'))
        cfop = {'fn': 'cf', 'sig': 'S0', 'center': wl.choice(('peak', 'trough')), 'method': method,
                'th': wl.choice((None, 'THC0')) if method == 'cycles' else wl.choice((None, 'THA0')),
                'bk': None, 'fe': wl.choice((None, 'FE0')), 'rs': True}
        ops.append(dict(cfop))
        ops.append({'fn': 'user_edit', 'obj': 'S0', 'key': None, 'value': wl.choice(('scale', 'negate', 'reverse'))})
        ops.append(dict(cfop))
    for op in ops:
        if op['fn'] in ('cf', 'shape', 'cyclepoints', 'extrema', 'bfrac', 'bandamp', 'cf2d', 'cf3d') \
                and wl.random() < 0.25:
            op['fr'] = 'FR0'
    if plots:
        for _ in range(wl.choice((1, 2))):
            t = pick(('features',), samples=True, method='cycles')
            if t is None:
                sig = 'S%d' % wl.randrange(nsig)
                ops.append({'fn': 'cf', 'sig': sig, 'center': wl.choice(('peak', 'trough')), 'method': 'cycles',
                            'th': wl.choice(('THC0', 'THC1')), 'bk': None, 'fe': None, 'rs': True})
                t = {'name': rname_prev(s, ops), 'kind': 'features', 'sig': sig, 'center': ops[-1]['center'],
                     'method': 'cycles', 'samples': True}
                avail.append(t)
            kind = wl.choice(('summary', 'summary', 'param', 'cpdf', 'hist', 'cat', 'cparr'))
            op = {'fn': 'plot_' + kind, 'table': t['name'], 'sig': t['sig']}
            dur = band['T'] / band['fs']
            if kind in ('summary', 'param', 'cpdf', 'cparr') and wl.random() < 0.5:
                a = round(wl.uniform(0.05, dur * 0.3), 2)
                op['xlim'] = [a, round(a + dur * 0.5, 2)]
            if kind in ('summary', 'param'):
                op['interp'] = wl.random() < 0.6
            if kind == 'summary':
                op['th'] = wl.choice(('THC0', 'THC1'))
                op['only_result'] = wl.random() < 0.5
            if kind == 'hist':
                op['only_bursts'] = wl.random() < 0.5
            if kind == 'cparr':
                e = pick(('extrema',), sig=t['sig'])
                if e is None:
                    ops.append({'fn': 'extrema', 'sig': t['sig'], 'boundary': 0, 'fk': None})
                    e = {'name': rname_prev(s, ops), 'kind': 'extrema', 'sig': t['sig']}
                    avail.append(e)
                op = {'fn': 'plot_cparr', 'sig': t['sig'], 'ext': e['name'], 'xlim': op.get('xlim')}
            ops.append(op)
    return ops


def _gen_user_edit(wl):
    """The caller edits one of its own option dicts (or signal arrays) in place between two calls."""
    if wl.random() < 0.3:
        return {'fn': 'user_edit', 'obj': 'S0', 'key': None, 'value': wl.choice(('scale', 'negate', 'reverse'))}
    name = wl.choice(('THC0', 'THC1', 'THA0', 'THA1', 'BK0', 'FK0', 'FE0'))
    if name.startswith('THC'):
        key, val = wl.choice(CYC_TH), wl.choice((0.2, 0.3, 0.4, 0.6, 0.7))
    elif name.startswith('THA'):
        key, val = wl.choice((('burst_fraction_threshold', wl.choice((0.4, 0.6, 0.9))),
                              ('min_n_cycles', wl.choice((1, 2, 4, 5)))))
    elif name == 'BK0':
        key, val = 'min_n_cycles', wl.choice((1, 2, 4, 5))
    elif name == 'FK0':
        key, val = 'n_cycles', wl.choice((3, 4, 5))
    else:
        key, val = 'boundary', wl.choice((0, 2, 6))
    return {'fn': 'user_edit', 'obj': name, 'key': key, 'value': val}


def rname_prev(s, ops):
    return 'R%d.%d' % (s, len(ops) - 1)


# =======================================================================================
# pool of shared argument objects

class ArgPool:
    def __init__(self, plan):
        band = plan['band']
        self.band = band
        self.objs = {}
        self.kind = {}
        for k, spec in enumerate(plan['signals']):
            sig = build_signal(spec, band)
            v = spec.get('variant')
            if v == 'f32':
                sig = sig.astype(np.float32)
            elif v == 'strided':              # a non-contiguous view into a larger buffer
                base = np.zeros(2 * len(sig) + 1)
                base[1::2] = sig
                sig = base[1::2]
            elif v == 'int':
                sig = np.round(sig * 100).astype(np.int64)
            self._add('S%d' % k, sig, 'signal')
        self._add('A0', np.array([build_signal(s, band) for s in plan['array2d']]), 'array2d')
        self._add('FR0', list(band['f_range']), 'f_range-list')
        sh = plan['array3d']['shape']
        arr = np.array([build_signal(s, band) for s in plan['array3d']['specs']])
        self._add('B0', arr.reshape(sh[0], sh[1], -1), 'array3d')
        # dicts: first the leaves, then those that nest references
        specs = plan['dicts']
        todo = sorted(specs)
        while todo:
            rest = []
            for name in todo:
                if all(r in self.objs for r in _refs(specs[name])):
                    self._add(name, self._live(specs[name]), 'dict:' + name.rstrip('0123456789'))
                else:
                    rest.append(name)
            if len(rest) == len(todo):
                raise ValueError('unresolvable dict references: %s' % rest)
            todo = rest
        self.pristine = {n: copy.deepcopy(o) for n, o in self.objs.items()}
        self.fp = {n: fingerprint(o) for n, o in self.objs.items()}
        self.uses = {n: 0 for n in self.objs}

    def _live(self, spec):
        if isinstance(spec, str) and spec.startswith('@'):
            return self.objs[spec[1:]]          # nested *reference* to another pool object
        if isinstance(spec, dict):
            out = {k: self._live(v) for k, v in spec.items()}
            if isinstance(out.get('amp_threshes'), list):
                out['amp_threshes'] = tuple(out['amp_threshes'])
            if isinstance(out.get('f_range'), list):
                out['f_range'] = tuple(out['f_range'])
            return out
        if isinstance(spec, list):
            return [self._live(v) for v in spec]
        return copy.deepcopy(spec)

    def _add(self, name, obj, kind):
        self.objs[name] = obj
        self.kind[name] = kind

    def add_result(self, name, value):
        self.objs[name] = value
        self.kind[name] = 'result'
        self.pristine[name] = copy.deepcopy(value)
        self.fp[name] = fingerprint(value)
        self.uses[name] = 0

    def changed(self):
        """A pool object whose value differs from its pristine value, with a description.
        When several changed (a dict and the dicts that nest it), the innermost is reported."""
        best = None
        for n in sorted(self.objs):
            if fingerprint(self.objs[n]) != self.fp[n]:
                d = describe_change(self.pristine[n], self.objs[n])
                depth = d[0].count('.')
                if best is None or depth < best[0]:
                    best = (depth, n, d)
        return None if best is None else (best[1], best[2])


def _refs(spec):
    if isinstance(spec, str):
        return [spec[1:]] if spec.startswith('@') else []
    if isinstance(spec, dict):
        return [r for v in spec.values() for r in _refs(v)]
    if isinstance(spec, list):
        return [r for v in spec for r in _refs(v)]
    return []


def describe_change(old, new):
    if isinstance(old, dict) and isinstance(new, dict):
        for k in sorted(set(old) | set(new), key=str):
            if k not in new:
                return str(k), 'key %r removed' % k
            if k not in old:
                return str(k), 'key %r added (= %r)' % (k, new[k])
            if diff(old[k], new[k]):
                sub = describe_change(old[k], new[k]) if isinstance(old[k], dict) else None
                if sub:
                    return '%s.%s' % (k, sub[0]), 'in %r: %s' % (k, sub[1])
                return str(k), 'key %r changed from %r to %r' % (k, old[k], new[k])
        return 'order', 'changed'
    d = diff(old, new) or 'changed'
    return 'values', d


# =======================================================================================
# the calls

def build_call(op, get, band):
    """-> (callable, args, kwargs). `get(name)` returns the object to pass for a pool name
    (the shared object, or a fresh deep copy of its pristine value for the pure interpreter)."""
    import bycycle.features as F
    import bycycle.features.burst as FB
    import bycycle.cyclepoints as CP
    import bycycle.group as G
    import bycycle.burst.utils as BU
    import bycycle.utils.dataframes as DFU
    import bycycle.plts as P
    fs, f_range = band['fs'], tuple(band['f_range'])
    if op.get('fr'):
        f_range = get(op['fr'])          # the caller's own [low, high] list, by reference
    fn = op['fn']

    def opt(name):
        return None if name is None else get(name)

    if fn == 'cf':
        kw = dict(center_extrema=op['center'], burst_method=op['method'], burst_kwargs=opt(op['bk']),
                  threshold_kwargs=opt(op['th']), find_extrema_kwargs=opt(op['fe']),
                  return_samples=op['rs'])
        bad = op.get('bad')
        if bad == 'center':
            kw['center_extrema'] = 'middle'
        elif bad == 'method':
            kw['burst_method'] = 'bogus'
        elif bad == 'amp_threshes':
            kw['burst_method'] = 'amp'
            kw['burst_kwargs'] = get('BKBAD')
            kw['threshold_kwargs'] = opt('THA0')
        elif bad == 'th_range':
            kw['threshold_kwargs'] = get('THBAD_' + op['method'])
        if op.get('positional'):
            return F.compute_features, (get(op['sig']), fs, f_range, kw['center_extrema'], kw['burst_method'],
                                        kw['burst_kwargs'], kw['threshold_kwargs'], kw['find_extrema_kwargs'],
                                        kw['return_samples']), {}
        return F.compute_features, (get(op['sig']), fs, f_range), kw
    if fn == 'shape':
        kw = dict(center_extrema=op['center'], find_extrema_kwargs=opt(op['fe']))
        if op.get('n_cycles', 3) != 3:
            kw['n_cycles'] = op['n_cycles']
        return F.compute_shape_features, (get(op['sig']), fs, f_range), kw
    if fn == 'cyclepoints':
        fe = opt(op['fe'])
        return F.compute_cyclepoints, (get(op['sig']), fs, f_range), ({} if fe is None else fe)
    if fn == 'extrema':
        kw = dict(boundary=op['boundary'], filter_kwargs=opt(op['fk']))
        if 'first' in op:
            kw['first_extrema'] = op['first']
        if 'pad' in op:
            kw['pad'] = op['pad']
        return CP.find_extrema, (get(op['sig']), fs, f_range), kw
    if fn == 'flankzx':
        import bycycle.cyclepoints.zerox as ZX
        return ZX.find_flank_zerox, (get(op['sig']), op['flank']), (
            {} if op.get('midpoint') is None else {'midpoint': op['midpoint']})
    if fn == 'zerox':
        e = get(op['ext'])
        return CP.find_zerox, (get(op['sig']), e[0], e[1]), {}
    if fn == 'phase':
        e = get(op['ext'])
        if op.get('zx') is None:
            return CP.extrema_interpolated_phase, (get(op['sig']), e[0], e[1]), {}
        z = get(op['zx'])
        return CP.extrema_interpolated_phase, (get(op['sig']), e[0], e[1], z[0], z[1]), {}
    if fn == 'burstfeat':
        return F.compute_burst_features, (get(op['table']), get(op['sig'])), dict(
            burst_method=op['method'], burst_kwargs=opt(op['bk']))
    if fn == 'ampfrac':
        return FB.compute_amp_fraction, (get(op['table']),), {}
    dkw = {'direction': op['direction']} if op.get('direction') else {}
    if fn == 'ampcons':
        return FB.compute_amp_consistency, (get(op['table']),), dkw
    if fn == 'percons':
        return FB.compute_period_consistency, (get(op['table']),), dkw
    if fn == 'mono':
        return FB.compute_monotonicity, (get(op['table']), get(op['sig'])), {}
    if fn == 'bfrac':
        return FB.compute_burst_fraction, (get(op['table']), get(op['sig']), fs, f_range), \
            (get(op['bk']) if op.get('bk') else {})
    if fn == 'durations':
        import bycycle.features.shape as SHP
        return SHP.compute_durations, (get(op['table']),), {}
    if fn == 'extvolt':
        import bycycle.features.shape as SHP
        return SHP.compute_extrema_voltage, (get(op['table']), get(op['sig'])), {}
    if fn == 'symmetry':
        import bycycle.features.shape as SHP
        return SHP.compute_symmetry, (get(op['table']), get(op['sig'])), {}
    if fn == 'bandamp':
        import bycycle.features.shape as SHP
        return SHP.compute_band_amp, (get(op['table']), get(op['sig']), fs, f_range), {}
    if fn in ('cf2d', 'cf3d'):
        ck = op['ck']
        if isinstance(ck, list):
            ckl = [[get(c) for c in row] if isinstance(row, list) else get(row) for row in ck]
        else:
            ckl = opt(ck)
        axis = (0, 1) if op['axis'] == '01' else op['axis']
        f = G.compute_features_2d if fn == 'cf2d' else G.compute_features_3d
        return f, (get('A0' if fn == 'cf2d' else 'B0'), fs, f_range), dict(
            compute_features_kwargs=ckl, axis=axis, return_samples=op['rs'], n_jobs=op['n_jobs'])
    if fn == 'recompute':
        return BU.recompute_edges, (get(op['table']), get(op['th'])), {}
    if fn == 'limit':
        return DFU.limit_df, (get(op['table']), fs), dict(start=op['start'], stop=op['stop'],
                                                          reset_indices=op['reset'])
    if fn == 'epoch':
        return DFU.epoch_df, (get(op['table']), band['T'], band['T'] // op['k']), {}
    if fn == 'drop':
        return DFU.drop_samples_df, (get(op['table']),), {}
    xl = {'xlim': tuple(op['xlim'])} if op.get('xlim') else {}
    if fn == 'plot_summary':
        return _closing(P.plot_burst_detect_summary), (get(op['table']), get(op['sig']), fs, get(op['th'])), dict(
            plot_only_result=op['only_result'], interp=op.get('interp', True), **xl)
    if fn == 'plot_param':
        return _closing(P.plot_burst_detect_param), (get(op['table']), get(op['sig']), fs,
                                                     'amp_consistency', 0.5), dict(interp=op.get('interp', True), **xl)
    if fn == 'plot_cpdf':
        return _closing(P.plot_cyclepoints_df), (get(op['table']), get(op['sig']), fs), xl
    if fn == 'plot_cparr':
        e = get(op['ext'])
        return _closing(P.plot_cyclepoints_array), (get(op['sig']), fs), dict(peaks=e[0], troughs=e[1], **xl)
    if fn == 'plot_hist':
        return _closing(P.plot_feature_hist), (get(op['table']), 'volt_amp'), dict(
            only_bursts=op.get('only_bursts', True))
    if fn == 'plot_cat':
        return _closing(P.plot_feature_categorical), (get(op['table']), 'volt_amp'), {}
    raise ValueError(fn)


def _closing(f):
    def call(*a, **k):
        import matplotlib.pyplot as plt
        try:
            f(*a, **k)
            return None
        finally:
            plt.close('all')
    return call


def _extra_names(op):
    bad = op.get('bad')
    if bad == 'amp_threshes':
        return ['BKBAD', 'THA0']
    if bad == 'th_range':
        return ['THBAD_' + op['method']]
    return []


def _pure_eval(op, values, band):
    from .rng import Tape
    import warnings
    warnings.simplefilter('ignore')
    # every *use* of a name gets its own copy: the pure call sees equal values, never shared
    # identities (an option list that repeats one dict object must behave like equal-valued dicts)
    f, a, k = build_call(op, lambda nm: copy.deepcopy(values[nm]), band)
    with Installed(Sim({'mode': 'fifo'}, Tape(0))):
        return call_outcome(f, a, k)


def op_names(op):
    """Pool names an operation draws by reference."""
    out = []
    if op['fn'] == 'user_edit':
        return [op['obj']]
    for k in ('sig', 'th', 'bk', 'fe', 'fk', 'table', 'ext', 'zx', 'fr'):
        if op.get(k):
            out.append(op[k])
    ck = op.get('ck')
    if isinstance(ck, str):
        out.append(ck)
    elif isinstance(ck, list):
        for row in ck:
            out.extend(row if isinstance(row, list) else [row])
    if op['fn'] == 'cf2d':
        out.append('A0')
    if op['fn'] == 'cf3d':
        out.append('B0')
    return out


# =======================================================================================
# execution

def call_outcome(f, a, k, arm=None):
    ctl = seams.ACTIVE
    fired0 = ctl.fired if ctl is not None else 0
    if arm and ctl is not None:
        ctl.arm_interrupt(arm)
    try:
        out = ('ok', f(*a, **k))
    except seams.SimInterrupt as e:
        out = ('interrupted', str(e))
    except SimDeadlock as e:
        out = ('deadlock', str(e))
    except Exception as e:
        out = ('raise', type(e).__name__, str(e)[:200])
    finally:
        if ctl is not None:
            ctl.disarm()
    if ctl is not None and ctl.fired > fired0 and out[0] != 'deadlock':
        return ('interrupted', 'injected interrupt; call ended with %s' % out[0])
    return out


class Session:
    def __init__(self, plan, pool, res, tape, ctl, sim, hist):
        self.plan, self.pool, self.res, self.tape, self.ctl, self.sim, self.hist = \
            plan, pool, res, tape, ctl, sim, hist
        self.first = {}        # (session, op index) -> outcome of the first evaluation
        self.stop = False
        self.edited = False

    def pure(self, op):
        """The pure interpreter: the same call on private copies of the pristine values of its
        arguments, evaluated in a pristine fork (empty call history, no shared module state)."""
        values = {nm: self.pool.pristine[nm] for nm in op_names(op) + _extra_names(op)}
        return pristine.call('simcheck.c15:_pure_eval', op, values, self.plan['band'])

    def run_op(self, s, n, op, arm=None, repeat=False):
        pool, res = self.pool, self.res
        if op['fn'] == 'user_edit':
            if repeat:
                return
            ch = pool.changed()
            if ch is None:          # (an earlier mutation by the library is reported by the call that follows)
                target = pool.objs[op['obj']]
                if op['key'] is None and not target.flags.writeable:
                    # only an interrupted call can leave the caller's array read-only (a guard that had
                    # no chance to undo itself); nothing is demanded of it, the caller cannot edit
                    res.stats['user_edit_skipped_array_left_read_only'] += 1
                    self.hist.append((s, 'user_edit', (op['obj'], op['key']), 'read-only'))
                    return
                if op['key'] is None:               # a signal array: same object, new contents
                    if op['value'] == 'scale':
                        np.multiply(target, 2, out=target, casting='unsafe')
                    elif op['value'] == 'negate':
                        np.negative(target, out=target)
                    else:
                        target[:] = target[::-1].copy()
                else:
                    target[op['key']] = op['value']
                for nm in pool.objs:            # the edited dict and every dict that nests it
                    fp = fingerprint(pool.objs[nm])
                    if fp != pool.fp[nm]:
                        pool.pristine[nm] = copy.deepcopy(pool.objs[nm])
                        pool.fp[nm] = fp
                res.stats['user_edits'] += 1
                self.edited = True
            self.hist.append((s, 'user_edit', (op['obj'], op['key']), 'ok'))
            return
        names = op_names(op)
        if any(nm not in pool.objs for nm in names):
            self.hist.append((s, op['fn'], 'skipped'))
            return
        f, a, k = build_call(op, lambda nm: pool.objs[nm], self.plan['band'])
        got = call_outcome(f, a, k, arm=arm)
        tag = '' if not repeat else 'repeat:'
        if not repeat:
            res.stats['call.%s.%s' % (op['fn'], got[0])] += 1
        self.hist.append((s, tag + op['fn'], tuple(names), got[0]))
        if got[0] == 'deadlock':
            res.violate('no-return', 'deadlock', 'session %d op %d (%s) blocks forever: %s' % (s, n, op['fn'], got[1]))
            self.stop = True
            return
        ch = pool.changed()
        if ch is not None:
            name, (key, what) = ch
            kind = pool.kind[name]
            suffix = ':interrupted' if got[0] == 'interrupted' else (':raised' if got[0] == 'raise' else '')
            # with interleaved sessions the call that observes the change need not be the one that made it
            who = op['fn'] if self.plan['config'] == 'sequential' else 'concurrent'
            res.violate('argument-mutated', '%s:%s:%s%s' % (who, kind, key, suffix),
                        'session %d op %d: %s(%s) modified the caller\'s %s (%s): %s'
                        % (s, n, op['fn'], ', '.join(names), name, kind, what))
            self.stop = True
            return
        for nm in names:
            pool.uses[nm] += 1
        if got[0] == 'interrupted':
            return
        if repeat:
            exp = self.first[(s, n)]
            d = outcome_diff(got, exp, op['fn'])
            if d:
                res.violate('result-depends-on-history', op['fn'] + ':repeat',
                            'session %d op %d: repeating %s(%s) on the same argument objects gave a '
                            'different result: %s' % (s, n, op['fn'], ', '.join(names), d))
                self.stop = True
            else:
                res.stats['repeats_checked'] += 1
            return
        exp = self.pure(op)
        m = op.get('method')
        if op['fn'] == 'cf' and not op.get('bad') and not self.plan['faults'].get('interrupts'):
            res.stats['attempt.' + m] += 1
            if exp[0] == 'ok':
                res.stats['progress.' + m] += 1
        d = outcome_diff(got, exp, op['fn'])
        if d:
            res.violate('result-depends-on-history', op['fn'],
                        'session %d op %d: %s(%s) on the shared argument objects differs from the same call '
                        'on fresh copies of their values: %s' % (s, n, op['fn'], ', '.join(names), d))
            self.stop = True
            return
        res.stats['calls_checked'] += 1
        self.first[(s, n)] = exp
        if got[0] == 'ok' and got[1] is not None:
            pool.add_result('R%d.%d' % (s, n), got[1])
            res.fps.append(pool.fp['R%d.%d' % (s, n)])


def execute(plan, tape):
    res = Result()
    res.fps = []
    hist = []
    pool = ArgPool(plan)
    band = plan['band']
    # extra dicts for natural-failure calls (shared like the others)
    pool._add('BKBAD', {'amp_threshes': (2, 1)}, 'dict:BK')
    pool._add('THBAD_cycles', {'monotonicity_threshold': 1.5}, 'dict:THC')
    pool._add('THBAD_amp', {'burst_fraction_threshold': -0.5}, 'dict:THA')
    for n in ('BKBAD', 'THBAD_cycles', 'THBAD_amp'):
        pool.pristine[n] = copy.deepcopy(pool.objs[n])
        pool.fp[n] = fingerprint(pool.objs[n])
        pool.uses[n] = 0
    sim = Sim(plan['sim'], tape)
    ctl = seams.Controller(tape, sim)
    sess = Session(plan, pool, res, tape, ctl, sim, hist)
    interrupts = plan['faults'].get('interrupts')
    baton = None

    def body(s):
        ops = plan['sessions'][s]
        for n, op in enumerate(ops):
            if sess.stop:
                return
            if op.get('fn') == 'nop':
                continue
            if baton is not None:
                baton.in_call[s] = False
                baton.yield_point('op-boundary')
                baton.in_call[s] = True
            arm = None
            if interrupts and tape.chance(1, 4, 'interrupt?'):
                arm = 1 + tape.choose(900 if plan.get('granularity') == 'line' else 60, 'interrupt-at')
            sess.run_op(s, n, op, arm=arm)
        if baton is not None:
            baton.in_call[s] = False

    from .core import REPO
    line_root = REPO if plan.get('granularity') == 'line' else None
    with quiet(), pristine.active(), Installed(sim), seams.activate(ctl, line_root):
        if plan['config'] == 'interleaved' and len(plan['sessions']) > 1:
            baton = seams.Baton(tape, len(plan['sessions']))
            ctl.baton = baton
            ctl.yield_num, ctl.yield_den = plan['yield']
            with seams.sim_locks():
                baton.run([body] * len(plan['sessions']))
            ctl.baton = None
            for e in baton.errors:
                if e is not None:
                    raise e
        else:
            body(0)
        if plan.get('repeat') and not sess.stop and res.vclass is None and not sess.edited:
            order = sorted(sess.first)
            random.Random(tape.choose(1 << 16, 'repeat-order')).shuffle(order)
            for (s, n) in order:
                if sess.stop:
                    break
                sess.run_op(s, n, plan['sessions'][s][n], repeat=True)
    sim.finish_run()

    # probes / bookkeeping
    shared = [n for n, u in pool.uses.items() if u >= 2]
    if any(pool.kind[n].startswith('dict') for n in shared):
        res.stats['probe.dict_used_by_2plus_calls'] += 1
    if any(pool.kind[n] == 'result' for n in shared):
        res.stats['probe.table_used_by_2plus_calls'] += 1
    cf_amp_bk = [h for h in hist if len(h) == 4 and h[1] == 'cf' and any(x.startswith('BK') for x in h[2])]
    if len(cf_amp_bk) >= 2:
        res.stats['probe.amp_twice_with_one_burst_kwargs'] += 1
    bf = [h for h in hist if len(h) == 4 and h[1] == 'burstfeat' and any(x.startswith('BKF') for x in h[2])]
    if len(bf) >= 2:
        res.stats['probe.burst_features_amp_twice_one_dict'] += 1
    if any(len(h) == 4 and h[1] in ('cf2d', 'cf3d') and any(x.startswith('CK') for x in h[2]) for h in hist):
        res.stats['probe.group_call_with_shared_dicts'] += 1
    if baton is not None:
        res.stats['baton_switches'] += baton.switches
        res.stats['probe.baton_switch_inside_call'] += 1 if baton.switches_inside_call else 0
        res.stats['baton_switches_inside_call'] += baton.switches_inside_call
        res.stats['baton_yields_on_blocked_lock'] += baton.lock_yields
    res.stats['fault.interrupt'] += ctl.fired
    res.stats['fault.natural_failure'] += sum(1 for h in hist if len(h) == 4 and h[3] == 'raise')
    res.stats['fault.interleaving'] += 1 if baton is not None else 0
    res.stats['config.' + plan['config']] += 1
    res.stats['granularity.' + plan.get('granularity', 'seam')] += 1
    if ctl.tracer is not None:
        res.stats['line_events'] += ctl.tracer.lines
    res.stats['seam_hits'] += ctl.hits
    res.stats['pool_seam_hits'] += sim.seam_hits
    res.stats.update(sim.stats)
    res.steps = sim.steps + len(hist) + (baton.switches if baton else 0)
    res.sim_time = sum(sim.makespans) if sim.mode == 'timed' else 0.0
    blog = tuple(baton.log) if baton is not None else ()
    res.inter_sig = digest_of(hist, blog)
    res.nontrivial = bool(shared)
    res.digest = digest_of(hist, blog, ctl.log, sim.log, res.fps, res.vclass, res.signature)
    res.rdigest = digest_of(sorted(hist, key=lambda h: h[0]), sorted(res.fps), res.vclass, res.signature)
    return res


def progress_violation(stats, min_attempts=10):
    for m in PROGRESS_KEYS:
        if stats.get('attempt.' + m, 0) >= min_attempts and stats.get('progress.' + m, 0) == 0:
            return ('no-progress', 'burst_method=' + m,
                    'none of %d well-formed compute_features calls with burst_method=%r returned'
                    % (stats['attempt.' + m], m), m)
    return None


# =======================================================================================
# shrinking / reporting

def shrink(plan):
    if plan['faults'].get('interrupts'):
        p = copy.deepcopy(plan)
        p['faults']['interrupts'] = False
        yield p
    if plan.get('repeat'):
        p = copy.deepcopy(plan)
        p['repeat'] = False
        yield p
    # one call plus the calls it depends on (through result names), everything else removed
    n_real = sum(1 for ops in plan['sessions'] for o in ops if o.get('fn') != 'nop')
    for s, ops in enumerate(plan['sessions']):
        for i in range(len(ops) - 1, -1, -1):
            if ops[i].get('fn') == 'nop':
                continue
            keep = _closure(ops, s, i)
            if len(keep) >= n_real:
                continue
            p = copy.deepcopy(plan)
            p['sessions'] = [[(o if (t == s and j in keep) else {'fn': 'nop'}) for j, o in enumerate(os_)]
                             for t, os_ in enumerate(plan['sessions'])]
            p['config'] = 'sequential'
            p['sessions'] = [p['sessions'][s]]
            if s != 0:
                # result names carry the session number: renumber to session 0
                p['sessions'] = [[_rename(o, s, 0) for o in p['sessions'][0]]]
            yield p
    if len(plan['sessions']) > 1:
        for s in range(len(plan['sessions'])):
            p = copy.deepcopy(plan)
            p['sessions'][s] = []
            if any(p['sessions']):
                yield p
        p = copy.deepcopy(plan)
        p['config'] = 'sequential'
        p['sessions'] = [[op for ops in plan['sessions'] for op in ops]]
        # result names are session-local; merging only works when they do not clash, so try it last
    # drop ops (result names are positional: replace the dropped op by a no-op marker)
    for s, ops in enumerate(plan['sessions']):
        n = len(ops)
        chunk = max(1, n // 2)
        while chunk >= 1:
            for i in range(0, n, chunk):
                if all(o.get('fn') == 'nop' for o in ops[i:i + chunk]):
                    continue
                p = copy.deepcopy(plan)
                for j in range(i, min(n, i + chunk)):
                    p['sessions'][s][j] = {'fn': 'nop'}
                yield p
            chunk //= 2
    simple = {'mode': 'fifo', 'bg_steps': 0, 'inq_cap': 64, 'cpu_count': 4, 'base_ms': 10.0, 'faults': {}}
    if plan['sim'] != simple:
        p = copy.deepcopy(plan)
        p['sim'] = simple
        yield p
    for s, ops in enumerate(plan['sessions']):
        for i, op in enumerate(ops):
            for key in ('th', 'bk', 'fe', 'fk'):
                if op.get(key):
                    p = copy.deepcopy(plan)
                    p['sessions'][s][i][key] = None
                    yield p
            if op.get('n_jobs', 1) != 1:
                p = copy.deepcopy(plan)
                p['sessions'][s][i]['n_jobs'] = 1
                yield p
            if isinstance(op.get('ck'), list):
                p = copy.deepcopy(plan)
                first = op['ck'][0][0] if isinstance(op['ck'][0], list) else op['ck'][0]
                p['sessions'][s][i]['ck'] = first
                yield p
    for name in sorted(plan['dicts']):
        d = plan['dicts'][name]
        if not isinstance(d, dict):
            continue
        for k in sorted(d):
            if k in ('fs', 'f_range'):
                continue
            p = copy.deepcopy(plan)
            del p['dicts'][name][k]
            yield p


def _closure(ops, s, i):
    keep, todo = set(), [i]
    prefix = 'R%d.' % s
    while todo:
        j = todo.pop()
        if j in keep or ops[j].get('fn') == 'nop':
            continue
        keep.add(j)
        for nm in op_names(ops[j]):
            if nm.startswith(prefix):
                todo.append(int(nm[len(prefix):]))
    return keep


def _rename(op, s_from, s_to):
    out = dict(op)
    for k in ('table', 'ext', 'zx'):
        v = out.get(k)
        if isinstance(v, str) and v.startswith('R%d.' % s_from):
            out[k] = 'R%d.' % s_to + v.split('.', 1)[1]
    return out


def sample_view(plan, res):
    return {'config': plan['config'], 'faults': plan['faults'], 'repeat': plan['repeat'],
            'dicts': plan['dicts'], 'sessions': [ops[:12] for ops in plan['sessions']],
            'n_signals': len(plan['signals']), 'T': plan['band']['T'], 'fs': plan['band']['fs']}


def describe(plan):
    lines = ['  config=%s faults=%s repeat=%s band=%s' % (plan['config'], plan['faults'], plan.get('repeat'),
                                                       {k: plan['band'][k] for k in ('fs', 'f_range', 'T')}),
             '  shared dicts: %s' % plan['dicts']]
    for s, ops in enumerate(plan['sessions']):
        for i, op in enumerate(ops):
            if op.get('fn') != 'nop':
                lines.append('   session %d op %2d: %s' % (s, i, op))
    return '\n'.join(lines)
