"""C14 - Bycycle / BycycleGroup objects reproduce the functional API and hold no
stale state. Seeded operation-and-fault histories on one object, checked after
every successful operation against a stateless reference model (ref.py) that
holds only values the user set and always calls the functional API on fresh copies."""
import copy

import numpy as np

from . import ref, seams, pristine
from .core import Result, quiet, digest_of
from .oracle import diff, fingerprint
from .simcfg import gen_sim_cfg, simpler_sim_cfgs
from .simpool import Sim, Installed, SimDeadlock
from .workload import thorough, gen_band, gen_signal_spec, build_signal, gen_thresholds, \
    gen_burst_kwargs, gen_find_extrema_kwargs

ID = 'C14'
RULE = ('one evaluation = one seeded history of 2..14 operations (construct / fit / recompute_edges / '
        'load / setting edits / attribute reads; natural failures and injected interrupts as faults) on '
        'one Bycycle or BycycleGroup object, checked after every successful operation against the '
        'stateless reference model; two evaluations are the same case when their abstract histories '
        '(sequence of operation kind + outcome) are equal; a case is non-trivial when it contains a '
        'successful fit that was preceded by a state-changing operation on the same object')
REAL = ['bycycle.objs.fit.BycycleBase/Bycycle/BycycleGroup (constructor, fit, recompute_edges, load, '
        '__getattr__, reduce_thresholds, __len__/__iter__/__getitem__)',
        'bycycle.features.compute_features and everything below', 'bycycle.burst.utils.recompute_edges',
        'bycycle.group.compute_features_2d/3d for group fits']
STUB = ['multiprocessing pool for group fits (SimPool)', 'interrupts are injected at call seams '
        '(wrappers around module-level bycycle functions), not at arbitrary bytecodes']
ASSUMPTIONS = [
    'the reference model holds only user-set values (constructor arguments and later edits made through '
    'the object\'s attributes) and the documented defaults / shorthand rule',
    'edits are applied through the object\'s attributes (obj.thresholds[k] = v, obj.burst_method = m, ...), '
    'never through the dict the caller passed to the constructor',
    'nothing is demanded of a failed or interrupted operation except that the next successful fit / load '
    're-establishes the checked state; raise-vs-return must agree with the reference, exception types need not',
]
PROGRESS_KEYS = ('cycles', 'amp')

CYC_KEYS = ('amp_fraction_threshold', 'amp_consistency_threshold', 'period_consistency_threshold',
            'monotonicity_threshold')


# ---------------------------------------------------------------------------------------
# plan generation

def _gen_ctor(wl, method=None):
    method = method or wl.choice(('cycles', 'cycles', 'amp'))
    th = gen_thresholds(wl, method, shorthand=True) if wl.random() < 0.75 else None
    return {'center_extrema': wl.choice(('peak', 'trough')), 'burst_method': method,
            'burst_kwargs': gen_burst_kwargs(wl, method), 'thresholds': th,
            'find_extrema_kwargs': gen_find_extrema_kwargs(wl),
            'return_samples': wl.random() < 0.7, 'positional': wl.random() < 0.3}


def _gen_edit(wl, cur, clean):
    """A setting edit, coherent with the current (shadow) settings `cur`."""
    method = cur['burst_method']
    th = cur['threshold_kwargs']
    r = wl.random()
    if not clean and r < 0.12:
        bad = wl.choice(('th_range', 'th_unknown', 'neg_cycles', 'method', 'center', 'amp_threshes'))
        if bad == 'th_range':
            key = wl.choice(CYC_KEYS) if method == 'cycles' else 'burst_fraction_threshold'
            return {'op': 'edit', 'target': 'threshold', 'key': key, 'value': wl.choice((1.5, -0.2)), 'invalid': True}
        if bad == 'th_unknown':
            return {'op': 'edit', 'target': 'threshold', 'key': 'bogus_threshold', 'value': 0.5, 'invalid': True}
        if bad == 'neg_cycles':
            return {'op': 'edit', 'target': 'threshold', 'key': 'min_n_cycles', 'value': -1, 'invalid': True}
        if bad == 'method':
            return {'op': 'edit', 'target': 'burst_method', 'value': 'bogus', 'invalid': True}
        if bad == 'center':
            return {'op': 'edit', 'target': 'center_extrema', 'value': 'middle', 'invalid': True}
        return {'op': 'edit', 'target': 'burst_kwargs_set', 'key': 'amp_threshes', 'value': [2, 1], 'invalid': True}
    if r < 0.40:
        if method == 'cycles':
            key = wl.choice(CYC_KEYS + ('min_n_cycles',))
        else:
            key = wl.choice(('burst_fraction_threshold', 'min_n_cycles', 'min_n_cycles'))
        if key == 'min_n_cycles':
            val = wl.choice((1, 2, 3, 4, 5))
        else:
            val = wl.choice((0.0, 0.1, 0.2, 0.3, 0.4, 0.5, 0.6, 0.7, 0.8, 1))
        return {'op': 'edit', 'target': 'threshold', 'key': key, 'value': val}
    if r < 0.48 and th:
        return {'op': 'edit', 'target': 'threshold_del', 'key': wl.choice(sorted(th))}
    if r < 0.58:
        return {'op': 'edit', 'target': 'thresholds_replace', 'value': gen_thresholds(wl, method)}
    if r < 0.70:
        new = 'amp' if method == 'cycles' else 'cycles'
        return {'op': 'edit', 'target': 'switch_method', 'value': new,
                'thresholds': gen_thresholds(wl, new), 'burst_kwargs': gen_burst_kwargs(wl, new) or {}}
    if r < 0.78:
        return {'op': 'edit', 'target': 'center_extrema', 'value': wl.choice(('peak', 'trough'))}
    if r < 0.80:
        return {'op': 'edit', 'target': 'fek_replace',
                'value': gen_find_extrema_kwargs(wl) or {'filter_kwargs': {'n_cycles': 3}}}
    if r < 0.83:      # in-place edit of a top-level key
        return {'op': 'edit', 'target': 'fek_set', 'key': 'boundary', 'value': wl.choice((0, 1, 3, 8))}
    if r < 0.86:      # in-place edit inside the nested filter_kwargs dict
        return {'op': 'edit', 'target': 'fek_nested_set', 'key': 'n_cycles', 'value': wl.choice((3, 4, 5))}
    if r < 0.92:
        return {'op': 'edit', 'target': 'return_samples', 'value': wl.random() < 0.5}
    if method == 'amp':
        k = wl.choice(('min_n_cycles', 'amp_threshes'))
        v = wl.choice((1, 2, 3, 4)) if k == 'min_n_cycles' else wl.choice(([0.5, 1.5], [1, 2], [0.8, 1.3]))
        return {'op': 'edit', 'target': 'burst_kwargs_set', 'key': k, 'value': v}
    return {'op': 'edit', 'target': 'burst_kwargs_replace', 'value': {}}


def _shadow_apply(cur, op):
    """Keep the generator's shadow of the settings in step (same semantics as Model.edit)."""
    Model.apply_edit(cur, op)


def gen_plan(wl, fr, idx):
    kind = 'group' if wl.random() < 0.22 else 'single'
    clean = wl.random() < 0.4
    interrupts = (not clean) and wl.random() < 0.5
    plan = {'kind': kind, 'clean': clean, 'faults': {'interrupts': interrupts},
            'reuse_buffers': wl.random() < 0.5,
            'read_all_columns': wl.random() < 0.6,
            'granularity': 'line' if interrupts and wl.random() < 0.5 else 'seam'}
    ctor = _gen_ctor(wl)
    plan['ctor'] = ctor
    cur = ref.object_settings(ctor)
    ops = []
    n_ops = wl.randint(2, 14)
    if thorough() and wl.random() < 0.3:
        n_ops = wl.randint(15, 24)
    if kind == 'single':
        nsig = wl.randint(1, 3)
        plan['signals'] = []
        for k in range(nsig):
            band = gen_band(wl)
            plan['signals'].append({'band': band, 'spec': gen_signal_spec(wl, band, k),
                                    'f_range_list': wl.random() < 0.2, 'fs_float': wl.random() < 0.2})
        scen = wl.random()
        if scen < 0.15:       # fit(amp) -> edit min_n_cycles -> fit
            if cur['burst_method'] != 'amp':
                op = {'op': 'edit', 'target': 'switch_method', 'value': 'amp',
                      'thresholds': gen_thresholds(wl, 'amp'), 'burst_kwargs': {}}
                ops.append(op)
                _shadow_apply(cur, op)
            ops.append({'op': 'fit', 'sig': 0})
            op = {'op': 'edit', 'target': 'threshold', 'key': 'min_n_cycles', 'value': wl.choice((1, 2, 4, 5))}
            ops.append(op)
            _shadow_apply(cur, op)
            ops.append({'op': 'fit', 'sig': wl.randrange(nsig)})
        elif scen < 0.27 and not clean:   # failed fit -> repair -> fit
            bad = _gen_edit(wl, cur, False)
            tries = 0
            while not bad.get('invalid') and tries < 20:
                bad = _gen_edit(wl, cur, False)
                tries += 1
            if bad.get('invalid'):
                before = copy.deepcopy(cur)
                ops.append(bad)
                ops.append({'op': 'fit', 'sig': 0})
                ops.append({'op': 'edit', 'target': 'restore', 'value': before})
                ops.append({'op': 'fit', 'sig': 0})
        elif scen < 0.37:     # load -> fit
            ops.append({'op': 'load', 'sig': wl.randrange(nsig), 'settings': _gen_ctor(wl)})
            ops.append({'op': 'fit', 'sig': wl.randrange(nsig)})
        elif scen < 0.47:     # fit -> recompute -> recompute -> fit
            ops.append({'op': 'fit', 'sig': 0})
            ops.append({'op': 'recompute', 'r': wl.choice((0.05, 0.1, 0.2))})
            ops.append({'op': 'recompute', 'r': wl.choice((None, 0.1, 0.3))})
            ops.append({'op': 'fit', 'sig': wl.randrange(nsig)})
        elif scen < 0.53 or 0.68 <= scen < 0.74:
            # fit -> in-place edit inside find_extrema_kwargs -> fit of the same signal
            ops.append({'op': 'fit', 'sig': 0})
            op = wl.choice(({'op': 'edit', 'target': 'fek_nested_set', 'key': 'n_cycles', 'value': wl.choice((4, 5))},
                            {'op': 'edit', 'target': 'fek_nested_set', 'key': 'n_cycles', 'value': wl.choice((1, 2, 6, 7))},
                            {'op': 'edit', 'target': 'fek_set', 'key': 'boundary', 'value': wl.choice((3, 8))}))
            ops.append(op)
            _shadow_apply(cur, op)
            ops.append({'op': 'fit', 'sig': 0})
        elif scen < 0.60:
            # fit -> the caller rewrites the same array object in place -> fit again (same settings)
            plan['reuse_buffers'] = True
            ops.append({'op': 'fit', 'sig': 0})
            ops.append({'op': 'sig_inplace', 'sig': 0, 'how': wl.choice(('scale', 'negate', 'refill')),
                        'other': wl.randrange(nsig)})
            ops.append({'op': 'fit', 'sig': 0})
        elif scen < 0.68 and cur['burst_method'] == 'cycles':
            # fit -> recompute(r) -> threshold edit -> [fit] -> recompute(same r)
            rr = wl.choice((None, 0.05, 0.1, 0.2))
            ops.append({'op': 'fit', 'sig': 0})
            ops.append({'op': 'recompute', 'r': rr})
            op = {'op': 'edit', 'target': 'threshold', 'key': wl.choice(CYC_KEYS),
                  'value': wl.choice((0.2, 0.3, 0.4, 0.6, 0.7))}
            ops.append(op)
            _shadow_apply(cur, op)
            if wl.random() < 0.5:
                ops.append({'op': 'fit', 'sig': wl.randrange(nsig)})
            ops.append({'op': 'recompute', 'r': rr})
        while len(ops) < n_ops:
            r = wl.random()
            if r < 0.36:
                ops.append({'op': 'fit', 'sig': wl.randrange(nsig)})
            elif r < 0.60:
                op = _gen_edit(wl, cur, clean)
                ops.append(op)
                if op.get('invalid'):
                    before = copy.deepcopy(cur)
                    _shadow_apply(cur, op)
                    k = wl.randint(1, 3)
                    for _ in range(k):
                        if wl.random() < 0.7:
                            ops.append({'op': 'fit', 'sig': wl.randrange(nsig)})
                    ops.append({'op': 'edit', 'target': 'restore', 'value': before})
                    cur = copy.deepcopy(before)
                else:
                    _shadow_apply(cur, op)
            elif r < 0.72:
                ops.append({'op': 'recompute', 'r': wl.choice((None, 0.05, 0.1, 0.2, 0.3))})
            elif r < 0.82:
                ops.append({'op': 'getattr', 'name': wl.choice(
                    ('period', 'is_burst', 'volt_amp', 'time_rdsym', 'sample_peak', 'sample_trough',
                     'amp_consistency', 'burst_fraction', 'no_such_column', 'band_amp'))})
            elif r < 0.89:
                ops.append({'op': 'load', 'sig': wl.randrange(nsig), 'settings': _gen_ctor(wl)})
            elif r < 0.915:
                ops.append({'op': 'roundtrip', 'how': wl.choice(('pickle', 'deepcopy', 'copy'))})
            elif r < 0.93:
                # the caller rewrites one of its signal buffers in place (only matters with reuse_buffers)
                k = wl.randrange(nsig)
                ops.append({'op': 'sig_inplace', 'sig': k, 'how': wl.choice(('scale', 'negate', 'refill')),
                            'other': wl.randrange(nsig)})
                ops.append({'op': 'fit', 'sig': k})
            elif r < 0.95:
                ops.append({'op': 'other_object', 'ctor': _gen_ctor(wl), 'sig': wl.randrange(nsig)})
            elif r < 0.98 and not clean:
                ops.append({'op': 'fit', 'sig': wl.randrange(nsig),
                            'bad': wl.choice(('sig2d', 'fs0', 'flat', 'short'))})
            else:
                c = _gen_ctor(wl)
                ops.append({'op': 'construct', 'ctor': c})
                cur = ref.object_settings(c)
    else:
        nd = wl.randint(1, 2)
        plan['arrays'] = []
        for k in range(nd):
            band = gen_band(wl)
            if wl.random() < 0.5:
                shape = [wl.randint(1, 4)]
            else:
                shape = list(wl.choice([(1, 2), (2, 1), (2, 2), (2, 3), (3, 2)]))
            n = shape[0] if len(shape) == 1 else shape[0] * shape[1]
            plan['arrays'].append({'band': band, 'shape': shape,
                                   'specs': [gen_signal_spec(wl, band, i) for i in range(n)]})
        plan['sim'] = gen_sim_cfg(fr, 4)
        n_ops = min(n_ops, 8)
        if wl.random() < 0.3:
            # group fit -> settings rebound (not edited in place) -> refit with the same layout -> recompute
            a = wl.randrange(nd)
            shape = plan['arrays'][a]['shape']
            axis = wl.choice((0, 0, None)) if len(shape) == 1 else wl.choice((0, 1, '01', '01'))
            ops.append({'op': 'gfit', 'array': a, 'axis': axis, 'n_jobs': wl.choice((1, 2))})
            op = {'op': 'edit', 'target': 'thresholds_replace', 'value': gen_thresholds(wl, cur['burst_method'])}
            ops.append(op)
            _shadow_apply(cur, op)
            ops.append({'op': 'gfit', 'array': a, 'axis': axis, 'n_jobs': wl.choice((1, 2, 3))})
            ops.append({'op': 'grecompute', 'r': wl.choice((None, 0.1, 0.2))})
        while len(ops) < n_ops:
            r = wl.random()
            if r < 0.45 or not ops:
                a = wl.randrange(nd)
                shape = plan['arrays'][a]['shape']
                axis = wl.choice((0, 0, None)) if len(shape) == 1 else wl.choice((0, 1, '01', '01'))
                ops.append({'op': 'gfit', 'array': a, 'axis': axis, 'n_jobs': wl.choice((1, 2, 3, -1))})
            elif r < 0.70:
                op = _gen_edit(wl, cur, True)
                ops.append(op)
                _shadow_apply(cur, op)
            elif r < 0.86:
                ops.append({'op': 'grecompute', 'r': wl.choice((None, 0.1, 0.2))})
            elif r < 0.94:
                ops.append({'op': 'groundtrip', 'how': wl.choice(('pickle', 'deepcopy', 'copy'))})
            else:
                ops.append({'op': 'glen'})
    plan['ops'] = ops
    return plan


# ---------------------------------------------------------------------------------------
# the reference model

class Model:
    """Holds only what the user set. Never looks at the object's dictionaries."""

    def __init__(self, ctor, kind='single'):
        self.s = ref.object_settings_checked(ctor, kind)
        self.table = ('none',)          # ('none',) | ('unknown',) | ('known', df) ; group: nested
        self.gtables = None

    @staticmethod
    def apply_edit(s, op):
        t = op['target']
        if t == 'threshold':
            s['threshold_kwargs'][op['key']] = op['value']
        elif t == 'threshold_del':
            s['threshold_kwargs'].pop(op['key'], None)
        elif t == 'thresholds_replace':
            s['threshold_kwargs'] = copy.deepcopy(op['value'])
        elif t == 'switch_method':
            s['burst_method'] = op['value']
            s['threshold_kwargs'] = copy.deepcopy(op['thresholds'])
            s['burst_kwargs'] = copy.deepcopy(op['burst_kwargs'])
        elif t == 'center_extrema':
            s['center_extrema'] = op['value']
        elif t == 'burst_method':
            s['burst_method'] = op['value']
        elif t == 'fek_replace':
            s['find_extrema_kwargs'] = copy.deepcopy(op['value'])
        elif t == 'return_samples':
            s['return_samples'] = op['value']
        elif t == 'fek_set':
            s['find_extrema_kwargs'][op['key']] = op['value']
        elif t == 'fek_nested_set':
            s['find_extrema_kwargs'].setdefault('filter_kwargs', {})[op['key']] = op['value']
        elif t == 'burst_kwargs_set':
            s['burst_kwargs'][op['key']] = copy.deepcopy(op['value'])
        elif t == 'burst_kwargs_replace':
            s['burst_kwargs'] = copy.deepcopy(op['value'])
        elif t == 'restore':
            s.clear()
            s.update(copy.deepcopy(op['value']))
        else:
            raise ValueError(t)


def apply_edit_to_object(obj, op):
    """The same edit, made the way a user makes it: through the object's attributes."""
    t = op['target']
    v = ref.live({'burst_kwargs': {'amp_threshes': op['value']}})['burst_kwargs']['amp_threshes'] \
        if t == 'burst_kwargs_set' and op.get('key') == 'amp_threshes' else copy.deepcopy(op.get('value'))
    if t == 'threshold':
        obj.thresholds[op['key']] = v
    elif t == 'threshold_del':
        obj.thresholds.pop(op['key'], None)
    elif t == 'thresholds_replace':
        obj.thresholds = v
    elif t == 'switch_method':
        obj.burst_method = v
        obj.thresholds = copy.deepcopy(op['thresholds'])
        obj.burst_kwargs = ref.live({'burst_kwargs': op['burst_kwargs']})['burst_kwargs']
    elif t == 'center_extrema':
        obj.center_extrema = v
    elif t == 'burst_method':
        obj.burst_method = v
    elif t == 'fek_replace':
        obj.find_extrema_kwargs = v
    elif t == 'return_samples':
        obj.return_samples = v
    elif t == 'fek_set':
        obj.find_extrema_kwargs[op['key']] = v
    elif t == 'fek_nested_set':
        obj.find_extrema_kwargs.setdefault('filter_kwargs', {})[op['key']] = v
    elif t == 'burst_kwargs_set':
        obj.burst_kwargs[op['key']] = v
    elif t == 'burst_kwargs_replace':
        obj.burst_kwargs = v
    elif t == 'restore':
        s = ref.live(op['value'])
        obj.center_extrema = s['center_extrema']
        obj.burst_method = s['burst_method']
        obj.burst_kwargs = s['burst_kwargs']
        obj.thresholds = s['threshold_kwargs']
        obj.find_extrema_kwargs = s['find_extrema_kwargs']
        obj.return_samples = s['return_samples']


def construct(cls, ctor):
    c = ref.live(ctor)
    if ctor.get('positional'):
        return cls(c['center_extrema'], c['burst_method'], c['burst_kwargs'], c['thresholds'],
                   c['find_extrema_kwargs'], c['return_samples'])
    return cls(center_extrema=c['center_extrema'], burst_method=c['burst_method'],
               burst_kwargs=c['burst_kwargs'], thresholds=c['thresholds'],
               find_extrema_kwargs=c['find_extrema_kwargs'], return_samples=c['return_samples'])


def construct_from_settings(cls, s):
    c = ref.live(s)
    return cls(center_extrema=c['center_extrema'], burst_method=c['burst_method'],
               burst_kwargs=c['burst_kwargs'], thresholds=c['threshold_kwargs'],
               find_extrema_kwargs=c['find_extrema_kwargs'], return_samples=c['return_samples'])


def obj_outcome(fn, *a, arm=None, **k):
    ctl = seams.ACTIVE
    fired0 = ctl.fired if ctl is not None else 0
    if arm and ctl is not None:
        ctl.arm_interrupt(arm)
    try:
        out = ('ok', fn(*a, **k))
    except seams.SimInterrupt as e:
        out = ('interrupted', str(e))
    except SimDeadlock as e:
        out = ('deadlock', str(e))
    except Exception as e:
        out = ('raise', type(e).__name__, str(e)[:200])
    finally:
        if ctl is not None:
            ctl.disarm()
    if ctl is not None and ctl.fired > fired0 and out[0] != 'deadlock':
        # an interrupt was injected into this operation: whether it surfaces as the interrupt,
        # as an error of the clean-up code, or is swallowed, nothing is demanded of the operation
        return ('interrupted', 'injected interrupt; operation ended with %s' % out[0])
    return out


def _fresh_fit(settings, sig, fs, f_range):
    """A freshly constructed object with the given settings, fitted once (runs in a pristine fork)."""
    from bycycle.objs import Bycycle
    import warnings
    warnings.simplefilter('ignore')
    obj = construct_from_settings(Bycycle, settings)
    try:
        obj.fit(sig, fs, f_range)
        return ('ok', obj.df_features)
    except Exception as e:
        return ('raise', type(e).__name__, str(e)[:200])


def first_diff_column(a, b):
    try:
        if list(a.columns) != list(b.columns):
            return 'columns'
        if len(a) != len(b):
            return 'rows'
        for c in a.columns:
            if diff(a[c].to_numpy(), b[c].to_numpy()):
                return str(c)
    except Exception:
        pass
    return 'other'


# ---------------------------------------------------------------------------------------
# execution

_BUFFERS = {}        # signal index -> the caller's array object (per run; runs are separate processes)


def fit_args(plan, op):
    d = plan['signals'][op['sig']]
    band = d['band']
    if plan.get('reuse_buffers') and not op.get('bad'):
        if op['sig'] not in _BUFFERS:
            _BUFFERS[op['sig']] = build_signal(d['spec'], band)
        sig = _BUFFERS[op['sig']]             # the very same ndarray object every time
    else:
        sig = build_signal(d['spec'], band)
    fs, f_range = band['fs'], tuple(band['f_range'])
    if d.get('f_range_list'):
        f_range = list(f_range)
    if d.get('fs_float'):
        fs = float(fs)
    bad = op.get('bad')
    if bad == 'sig2d':
        sig = sig.reshape(1, -1)
    elif bad == 'fs0':
        fs = 0
    elif bad == 'flat':
        sig = np.zeros_like(sig)
    elif bad == 'short':
        sig = sig[:12]
    return sig, fs, f_range


def execute(plan, tape):
    res = Result()
    hist = []
    sim = Sim(plan.get('sim') or {'mode': 'fifo'}, tape)
    ctl = seams.Controller(tape, sim)
    interrupts = plan.get('faults', {}).get('interrupts')
    from .core import REPO
    line_root = REPO if plan.get('granularity') == 'line' else None
    with quiet(), pristine.active(), Installed(sim), seams.activate(ctl, line_root):
        if plan['kind'] == 'single':
            _run_single(plan, tape, res, hist, ctl, interrupts)
        else:
            _run_group(plan, tape, res, hist, ctl, sim)
    sim.finish_run()
    res.stats['fault.interrupt'] += ctl.fired
    res.stats['fault.natural_failure'] += sum(1 for h in hist if h[1] == 'raise' and h[0] in ('fit', 'recompute', 'gfit', 'grecompute'))
    res.stats['fault.invalid_setting_edit'] += sum(1 for h in hist if h[0] == 'edit' and h[1].endswith('!'))
    res.stats['seam_hits'] += ctl.hits
    res.stats['pool_seam_hits'] += sim.seam_hits
    res.stats.update(sim.stats)
    res.stats['kind.' + plan['kind']] += 1
    res.stats['granularity.' + plan.get('granularity', 'seam')] += 1
    if ctl.tracer is not None:
        res.stats['line_events'] += ctl.tracer.lines
    res.steps = sim.steps + len(hist)
    res.sim_time = sum(sim.makespans) if sim.mode == 'timed' else 0.0
    res.inter_sig = digest_of(plan['kind'], hist)
    # non-trivial: a successful fit preceded by a state-changing operation
    seen_state_change = False
    for kind, outc in hist:
        if kind in ('fit', 'gfit') and outc == 'ok' and seen_state_change:
            res.nontrivial = True
        if kind in ('fit', 'gfit', 'edit', 'load', 'recompute', 'grecompute'):
            seen_state_change = True
    _probes(res, hist)
    res.digest = digest_of(hist, ctl.log, sim.log, res.vclass, res.signature, res.fps)
    res.rdigest = digest_of(hist, ctl.log, res.vclass, res.signature, res.fps)
    return res


def _probes(res, hist):
    kinds = [h[0] for h in hist]
    seen = set()
    for i, (k, o) in enumerate(hist):
        if k == 'fit' and o == 'ok':
            prev = hist[:i]
            if any(p[0] == 'edit' for p in prev) and any(p[0] == 'fit' and p[1] == 'ok' for p in prev):
                seen.add('fit_after_fit_with_changed_settings')
            if any(p[0] == 'fit' and p[1] == 'raise' for p in prev):
                seen.add('fit_after_natural_failure')
            if any(p[1] == 'interrupted' for p in prev):
                seen.add('fit_after_interrupt')
            if any(p[0] == 'load' for p in prev):
                seen.add('fit_after_load')
    if kinds.count('recompute') >= 2:
        seen.add('two_or_more_recomputes')
    if res.methods_fit >= {'cycles', 'amp'}:
        seen.add('both_methods_on_one_object')
    for s in seen:
        res.stats['probe.' + s] += 1


def _run_single(plan, tape, res, hist, ctl, interrupts):
    from bycycle.objs import Bycycle
    res.fps = []
    res.methods_fit = set()
    model = Model(plan['ctor'])
    obj = construct(Bycycle, plan['ctor'])
    if isinstance(plan['ctor'].get('thresholds'), dict) and any(
            not k.endswith('_threshold') and k != 'min_n_cycles' for k in plan['ctor']['thresholds']):
        res.stats['probe.shorthand_threshold_names'] += 1
    for n, op in enumerate(plan['ops']):
        if res.vclass:
            break
        kind = op['op']
        res.arm_at = None
        if interrupts and kind in ('fit', 'recompute') and tape.chance(1, 4, 'interrupt?'):
            res.arm_at = 1 + tape.choose(600 if plan.get('granularity') == 'line' else 40, 'interrupt-at')
        try:
            if kind == 'construct':
                model = Model(op['ctor'])
                obj = construct(Bycycle, op['ctor'])
                hist.append(('construct', 'ok'))
            elif kind == 'edit':
                Model.apply_edit(model.s, op)
                apply_edit_to_object(obj, op)
                hist.append(('edit', op['target'] + ('!' if op.get('invalid') else '')))
            elif kind == 'fit':
                _op_fit(plan, op, n, obj, model, res, hist)
            elif kind == 'recompute':
                _op_recompute(op, n, obj, model, res, hist)
            elif kind == 'load':
                _op_load(plan, op, n, obj, model, res, hist)
            elif kind == 'getattr':
                _op_getattr(op, n, obj, model, res, hist)
            elif kind == 'roundtrip':
                obj = _roundtrip(obj, op['how'], n, res, hist)
            elif kind == 'sig_inplace':
                _op_sig_inplace(plan, op, hist, res)
            elif kind == 'other_object':
                _op_other_object(plan, op, n, res, hist)
            # invariant: attribute access returns the table's columns - read every column after
            # every operation that (re)established the table (in a seeded subset of runs, so that
            # histories without intermediate reads are explored as well)
            if plan.get('read_all_columns') and kind in ('fit', 'load', 'recompute') \
                    and res.vclass is None and model.table[0] == 'known':
                _read_all_columns(n, kind, obj, model, res)
        finally:
            ctl.disarm()
    res.arm_at = None


def _op_fit(plan, op, n, obj, model, res, hist):
    from bycycle.objs import Bycycle
    sig, fs, f_range = fit_args(plan, op)
    method = model.s['burst_method']
    wellformed = plan.get('clean') and not op.get('bad')
    if op.get('bad') == 'sig2d':
        expected = ('raise', 'ValueError', 'Signal must be 1-dimensional.')
    else:
        expected = ref.ref_features(sig, fs, f_range, model.s)
    if wellformed:
        res.stats['attempt.' + method] += 1
        if expected[0] == 'ok':
            res.stats['progress.' + method] += 1
    got = obj_outcome(obj.fit, sig, fs, f_range, arm=res.arm_at)
    if got[0] == 'interrupted':
        model.table = ('unknown',)
        hist.append(('fit', 'interrupted'))
        return
    hist.append(('fit', got[0]))
    if got[0] == 'ok':
        res.methods_fit.add(method)
    mismatch = None
    if expected[0] != got[0]:
        mismatch = 'object fit %s but compute_features with the same settings %s' % (
            _short(got), _short(expected))
        col = 'raises' if got[0] == 'raise' else 'returns'
    elif got[0] == 'ok':
        d = diff(obj.df_features, expected[1])
        if d:
            mismatch = 'df_features differs from compute_features with the same settings: ' + d
            col = first_diff_column(obj.df_features, expected[1])
    if mismatch:
        # does a freshly constructed object with the current settings agree with the reference?
        fo = pristine.call('simcheck.c14:_fresh_fit', model.s, sig.copy(), fs, f_range)
        fresh_ok = (fo[0] == expected[0]) and (fo[0] != 'ok' or not diff(fo[1], expected[1]))
        vclass = 'fit-differs-from-fresh' if fresh_ok else 'model-mismatch'
        res.violate(vclass, '%s:%s' % (method, col), 'op %d (fit): %s' % (n, mismatch))
        return
    if got[0] == 'ok':
        if diff(np.asarray(obj.sig), sig) or obj.fs != fs or list(obj.f_range) != list(f_range):
            res.violate('model-mismatch', 'fit-attributes', 'op %d (fit): sig/fs/f_range are not the arguments' % n)
            return
        model.table = ('known', expected[1])
        res.fps.append(fingerprint(expected[1]))
        res.stats['fits_checked'] += 1
    else:
        model.table = ('unknown',)


def _short(o):
    if o[0] == 'raise':
        return 'raised %s(%s)' % (o[1], o[2][:80])
    if o[0] == 'ok':
        return 'returned'
    return o[0]


def _op_recompute(op, n, obj, model, res, hist):
    r = op['r']
    if model.table[0] in ('unknown', 'none'):
        # no table (what recompute_edges does before the first fit is not part of the property)
        # or a table of unknown state after a failed / interrupted operation
        got = obj_outcome(obj.recompute_edges, r, arm=res.arm_at)
        hist.append(('recompute', 'unchecked'))
        return
    th = model.s['threshold_kwargs']
    expected = ref.ref_recompute(model.table[1], th, r) if isinstance(th, dict) \
        else ('raise', 'AttributeError', '')
    got = obj_outcome(obj.recompute_edges, r, arm=res.arm_at)
    if got[0] == 'interrupted':
        model.table = ('unknown',)
        hist.append(('recompute', 'interrupted'))
        return
    hist.append(('recompute', got[0]))
    if expected[0] != got[0]:
        res.violate('recompute-mismatch', 'outcome',
                    'op %d (recompute_edges(%r)): object %s, functional recomputation %s'
                    % (n, r, _short(got), _short(expected)))
        return
    if got[0] == 'ok':
        d = diff(obj.df_features, expected[1])
        if d:
            res.violate('recompute-mismatch', first_diff_column(obj.df_features, expected[1]),
                        'op %d (recompute_edges(%r)): differs from the functional recomputation with '
                        'every *_threshold lowered by r: %s' % (n, r, d))
            return
        model.table = ('known', expected[1])
        res.fps.append(fingerprint(expected[1]))
        res.stats['recomputes_checked'] += 1
    else:
        model.table = ('unknown',)      # nothing is demanded of a failed operation


def _op_load(plan, op, n, obj, model, res, hist):
    d = plan['signals'][op['sig']]
    band = d['band']
    sig = build_signal(d['spec'], band)
    src = ref.ref_features(sig, band['fs'], band['f_range'], ref.object_settings(op['settings']))
    if src[0] != 'ok':
        hist.append(('load', 'skipped'))
        return
    table = src[1]
    pristine = table.copy()
    got = obj_outcome(obj.load, table, sig, band['fs'], tuple(band['f_range']))
    hist.append(('load', got[0]))
    if got[0] != 'ok':
        res.violate('load-mismatch', 'raises', 'op %d (load): %s' % (n, _short(got)))
        return
    dd = diff(obj.df_features, pristine) or diff(np.asarray(obj.sig), sig)
    if dd or obj.fs != band['fs'] or tuple(obj.f_range) != tuple(band['f_range']):
        res.violate('load-mismatch', 'attributes', 'op %d (load): object does not hold the loaded data: %s' % (n, dd))
        return
    model.table = ('known', pristine)


def _roundtrip(obj, how, n, res, hist):
    """The user pickles / copies the object and goes on with the copy: same settings, same table."""
    import pickle
    try:
        if how == 'pickle':
            new = pickle.loads(pickle.dumps(obj))
        elif how == 'deepcopy':
            new = copy.deepcopy(obj)
        else:
            new = copy.copy(obj)
    except Exception as e:
        hist.append(('roundtrip', 'raise'))
        res.stats['roundtrip_failed.' + type(e).__name__] += 1
        return obj              # nothing is demanded: the user keeps the original
    hist.append(('roundtrip', how))
    res.stats['probe.roundtrip_' + how] += 1
    return new


def _op_sig_inplace(plan, op, hist, res):
    """The caller overwrites the contents of one of its signal buffers (same object, new values)."""
    if not plan.get('reuse_buffers'):
        hist.append(('sig_inplace', 'no-buffer'))
        return
    k = op['sig']
    d = plan['signals'][k]
    if k not in _BUFFERS:
        _BUFFERS[k] = build_signal(d['spec'], d['band'])
    buf = _BUFFERS[k]
    if not buf.flags.writeable:
        # only an interrupted fit can leave the caller's buffer read-only; the caller cannot rewrite it
        hist.append(('sig_inplace', 'read-only'))
        res.stats['sig_inplace_skipped_buffer_left_read_only'] += 1
        return
    if op['how'] == 'scale':
        buf *= 3.0
    elif op['how'] == 'negate':
        np.negative(buf, out=buf)
    else:
        o = plan['signals'][op['other']]
        src = build_signal(o['spec'], d['band'])       # another waveform, same length and band
        buf[:] = src[:len(buf)] * 0.5 + buf[::-1] * 0.5
    hist.append(('sig_inplace', op['how']))
    res.stats['probe.signal_buffer_rewritten_in_place'] += 1


def _op_other_object(plan, op, n, res, hist):
    """An independent second object is constructed and fitted in between: objects must not share state."""
    from bycycle.objs import Bycycle
    sig, fs, f_range = fit_args(plan, {'sig': op['sig']})
    s = ref.object_settings_checked(op['ctor'], 'single')
    expected = ref.ref_features(sig, fs, f_range, s)
    other = construct(Bycycle, op['ctor'])
    got = obj_outcome(other.fit, sig, fs, f_range)
    hist.append(('other_object', got[0]))
    if got[0] == 'interrupted':
        return
    if got[0] != expected[0] or (got[0] == 'ok' and diff(other.df_features, expected[1])):
        res.violate('model-mismatch', 'second-object',
                    'op %d: a second, independently constructed object fitted in between differs from '
                    'compute_features with its own settings' % n)
    else:
        res.stats['probe.second_object_between_ops'] += 1


def _read_all_columns(n, kind, obj, model, res):
    table = model.table[1]
    for name in table.columns:
        try:
            val = getattr(obj, name)
        except Exception as e:
            res.violate('getattr-mismatch', 'column', 'after op %d (%s): attribute %r raised %s'
                        % (n, kind, name, type(e).__name__))
            return
        if diff(np.asarray(val), table[name].values):
            res.violate('getattr-mismatch', 'column',
                        'after op %d (%s): attribute %r is not the current table column' % (n, kind, name))
            return
    res.stats['column_reads_checked'] += len(table.columns)


def _op_getattr(op, n, obj, model, res, hist):
    name = op['name']
    if model.table[0] == 'unknown':
        hist.append(('getattr', 'unchecked'))
        return
    try:
        val = ('ok', getattr(obj, name))
    except AttributeError:
        val = ('raise', 'AttributeError')
    except Exception as e:
        val = ('raise', type(e).__name__)
    has = model.table[0] == 'known' and name in model.table[1].columns
    hist.append(('getattr', val[0]))
    if has:
        if val[0] != 'ok' or diff(np.asarray(val[1]), model.table[1][name].values):
            res.violate('getattr-mismatch', 'column',
                        'op %d: attribute %r is not the table column (%s)' % (n, name, val[0]))
        else:
            res.stats['getattrs_checked'] += 1
    else:
        # a name that is not a column of the current table must not yield a value (which
        # exception type is raised is not part of the property)
        if val[0] != 'raise':
            res.violate('getattr-mismatch', 'unknown-name',
                        'op %d: attribute %r is not a column of the current table but access returned a value'
                        % (n, name))
        else:
            res.stats['getattrs_checked'] += 1


# ---- group objects ------------------------------------------------------------------------

def _build_array(a):
    band = a['band']
    sigs = [build_signal(s, band) for s in a['specs']]
    arr = np.array(sigs)
    if len(a['shape']) == 2:
        arr = arr.reshape(a['shape'][0], a['shape'][1], -1)
    return arr


def _run_group(plan, tape, res, hist, ctl, sim):
    from bycycle.objs import BycycleGroup
    res.fps = []
    res.methods_fit = set()
    model = Model(plan['ctor'], 'group')
    obj = construct(BycycleGroup, plan['ctor'])
    cur = None          # (array, nested tables) after the last successful gfit
    edited_since_fit = False
    for n, op in enumerate(plan['ops']):
        if res.vclass:
            break
        kind = op['op']
        if kind == 'edit':
            Model.apply_edit(model.s, op)
            apply_edit_to_object(obj, op)
            hist.append(('edit', op['target']))
            # whether the already-built models see a later edit of the group's settings is not
            # specified: group recompute_edges is only checked when no edit intervened
            edited_since_fit = True
        elif kind == 'groundtrip':
            new = _roundtrip(obj, op['how'], n, res, hist)
            if new is not obj and cur is not None and not edited_since_fit:
                bad = _group_columns(new, cur[1], cur[0].ndim == 3)
                if bad:
                    res.violate('models-mismatch', 'roundtrip',
                                'op %d (%s of the group): %s' % (n, op['how'], bad))
                    break
            obj = new
        elif kind == 'glen':
            exp = 0 if cur is None else len(cur[1])
            try:
                ok = len(obj) == exp and len(list(obj)) == exp
            except Exception:
                ok = False
            hist.append(('glen', 'ok' if ok else 'bad'))
            if not ok and cur is not None:
                res.violate('models-mismatch', 'len', 'op %d: len()/iteration disagree with the fitted array' % n)
        elif kind == 'gfit':
            a = plan['arrays'][op['array']]
            sigs = _build_array(a)
            fs, f_range = a['band']['fs'], tuple(a['band']['f_range'])
            axis = (0, 1) if op['axis'] == '01' else op['axis']
            s = ref.live(model.s)
            rs = s.pop('return_samples')
            # reference: the functional group call on fresh copies, n_jobs=1, fifo schedule, pristine fork
            expected = ref.ref_group(sigs, fs, f_range, s, axis, rs)
            method = model.s['burst_method']
            res.stats['attempt.' + method] += 1
            if expected[0] == 'ok':
                res.stats['progress.' + method] += 1
            arm = None
            if plan.get('faults', {}).get('interrupts') and tape.chance(1, 4, 'interrupt?'):
                arm = 1 + tape.choose(600 if plan.get('granularity') == 'line' else 12, 'interrupt-at')
            got = obj_outcome(obj.fit, sigs, fs, f_range, axis=axis, n_jobs=op['n_jobs'], arm=arm)
            if got[0] == 'interrupted':
                hist.append(('gfit', 'interrupted'))
                cur = None
                continue
            if got[0] == 'deadlock':
                res.violate('no-return', 'deadlock', 'op %d (group fit) blocks forever: %s' % (n, got[1]))
                break
            hist.append(('gfit', got[0]))
            if got[0] != expected[0]:
                res.violate('fit-differs-from-fresh', '%s:group-%s' % (method, 'raises' if got[0] == 'raise' else 'returns'),
                            'op %d (group fit axis=%s): object %s, functional group call %s'
                            % (n, axis, _short(got), _short(expected)))
                break
            if got[0] != 'ok':
                cur = None
                continue
            res.methods_fit.add(method)
            d = diff(obj.df_features, expected[1])
            if d:
                res.violate('fit-differs-from-fresh', '%s:group-table' % method,
                            'op %d (group fit axis=%s): df_features differs from the functional group call: %s'
                            % (n, axis, d))
                break
            m = _mirror(obj, sigs, fs, f_range)
            if m:
                res.violate('models-mismatch', 'mirror', 'op %d (group fit axis=%s): %s' % (n, axis, m))
                break
            cur = (sigs, expected[1])
            edited_since_fit = False
            if plan.get('read_all_columns'):
                bad = _group_columns(obj, expected[1], sigs.ndim == 3)
                if bad:
                    res.violate('getattr-mismatch', 'group-column', 'op %d (group fit): %s' % (n, bad))
                    break
            res.fps.append(fingerprint(expected[1]))
            res.stats['group_fits_checked'] += 1
            res.stats['probe.group_%dd' % sigs.ndim] += 1
        elif kind == 'grecompute':
            if cur is None or edited_since_fit:
                got = obj_outcome(obj.recompute_edges, op['r']) if cur is not None else None
                cur = None
                hist.append(('grecompute', 'unchecked'))
                continue
            th = model.s['threshold_kwargs']
            sigs, tabs = cur
            nested = sigs.ndim == 3
            flat = [t for row in tabs for t in row] if nested else list(tabs)
            exp = [ref.ref_recompute(t, th, op['r']) for t in flat]
            got = obj_outcome(obj.recompute_edges, op['r'])
            hist.append(('grecompute', got[0]))
            any_raise = any(e[0] != 'ok' for e in exp)
            if (got[0] == 'ok') == any_raise:
                res.violate('recompute-mismatch', 'group-outcome',
                            'op %d (group recompute_edges(%r)): object %s, functional recomputation %s'
                            % (n, op['r'], _short(got), 'raises' if any_raise else 'returns'))
                break
            if got[0] != 'ok':
                cur = None      # some models may have been recomputed, others not
                continue
            models = [m for row in obj.models for m in row] if nested else list(obj.models)
            for k, (m, e) in enumerate(zip(models, exp)):
                d = diff(m.df_features, e[1])
                if d:
                    res.violate('recompute-mismatch', 'group-table',
                                'op %d (group recompute_edges(%r)): model %d differs from the functional '
                                'recomputation of its own table: %s' % (n, op['r'], k, d))
                    break
            if res.vclass:
                break
            newt = [e[1] for e in exp]
            if nested:
                n1 = len(tabs[0])
                newt = [newt[i * n1:(i + 1) * n1] for i in range(len(tabs))]
            cur = (sigs, newt)
            res.stats['group_recomputes_checked'] += 1
            if plan.get('read_all_columns'):
                bad = _group_columns(obj, newt, nested)
                if bad:
                    res.violate('getattr-mismatch', 'group-column',
                                'op %d (group recompute_edges): %s' % (n, bad))
                    break


def _group_columns(obj, tables, nested):
    """Attribute access on every model returns the columns of that model's current table."""
    models = [m for row in obj.models for m in row] if nested else list(obj.models)
    tabs = [t for row in tables for t in row] if nested else list(tables)
    for k, (m, t) in enumerate(zip(models, tabs)):
        for name in t.columns:
            try:
                val = getattr(m, name)
            except Exception as e:
                return 'model %d attribute %r raised %s' % (k, name, type(e).__name__)
            if diff(np.asarray(val), t[name].values):
                return 'model %d attribute %r is not the current table column' % (k, name)
    return None


def _mirror(obj, sigs, fs, f_range):
    df = obj.df_features
    models = obj.models
    if sigs.ndim == 2:
        if len(models) != len(sigs) or len(df) != len(sigs):
            return 'models / df_features do not have one entry per row'
        pairs = [((i,), models[i], df[i], sigs[i]) for i in range(len(sigs))]
    else:
        n0, n1 = sigs.shape[:2]
        if not (len(models) == n0 and all(len(r) == n1 for r in models)):
            return 'models does not have the nested shape of the array'
        pairs = [((i, j), models[i][j], df[i][j], sigs[i, j]) for i in range(n0) for j in range(n1)]
    for idx, m, t, s in pairs:
        d = diff(m.df_features, t) or diff(np.asarray(m.sig), s)
        if d:
            return 'models%s does not mirror df_features%s / sigs%s: %s' % (list(idx), list(idx), list(idx), d)
        if m.fs != fs or tuple(m.f_range) != tuple(f_range) or m.burst_method != obj.burst_method \
                or m.center_extrema != obj.center_extrema:
            return 'models%s settings differ from the group\'s' % (list(idx),)
    return None


def progress_violation(stats, min_attempts=10):
    for m in PROGRESS_KEYS:
        if stats.get('attempt.' + m, 0) >= min_attempts and stats.get('progress.' + m, 0) == 0:
            return ('no-progress', 'burst_method=' + m,
                    'none of %d fits with burst_method=%r in fault-free histories on well-formed signals '
                    'returned' % (stats['attempt.' + m], m), m)
    return None


# ---------------------------------------------------------------------------------------
# shrinking / reporting

def shrink(plan):
    ops = plan['ops']
    n = len(ops)
    if plan.get('faults', {}).get('interrupts'):
        p = copy.deepcopy(plan)
        p['faults']['interrupts'] = False
        yield p
    # ddmin-style: drop chunks of operations, large to small
    chunk = n // 2
    while chunk >= 1:
        for i in range(0, n, chunk):
            p = copy.deepcopy(plan)
            del p['ops'][i:i + chunk]
            if p['ops']:
                yield p
        chunk //= 2
    if plan.get('sim'):
        simple = {'mode': 'fifo', 'bg_steps': 0, 'inq_cap': 64, 'cpu_count': 4, 'base_ms': 10.0, 'faults': {}}
        if plan['sim'] != simple:
            p = copy.deepcopy(plan)
            p['sim'] = simple
            yield p
        for c in simpler_sim_cfgs(plan['sim']):
            p = copy.deepcopy(plan)
            p['sim'] = c
            yield p
    # simpler constructor
    c = plan['ctor']
    for key, val in (('find_extrema_kwargs', None), ('burst_kwargs', None), ('thresholds', None),
                     ('center_extrema', 'peak'), ('return_samples', True)):
        if c.get(key) != val:
            p = copy.deepcopy(plan)
            p['ctor'][key] = val
            yield p
    if isinstance(c.get('thresholds'), dict):
        for k in sorted(c['thresholds']):
            p = copy.deepcopy(plan)
            del p['ctor']['thresholds'][k]
            yield p
    # point every fit / load at signal 0, simplify signals
    for i, op in enumerate(ops):
        if op.get('sig'):
            p = copy.deepcopy(plan)
            p['ops'][i]['sig'] = 0
            yield p
        if op.get('n_jobs', 1) != 1:
            p = copy.deepcopy(plan)
            p['ops'][i]['n_jobs'] = 1
            yield p
    for k, d in enumerate(plan.get('signals', [])):
        s = d['spec']
        if len(s['comps']) > 1:
            p = copy.deepcopy(plan)
            p['signals'][k]['spec']['comps'] = s['comps'][:1]
            yield p
        for key, val in (('am', None), ('noise_sd', 0.0), ('dc', 0)):
            if s.get(key):
                p = copy.deepcopy(plan)
                p['signals'][k]['spec'][key] = val
                yield p


def sample_view(plan, res):
    return {'kind': plan['kind'], 'ctor': plan['ctor'], 'clean': plan['clean'],
            'faults': plan['faults'], 'ops': plan['ops'][:14],
            'signals': [{'fs': d['band']['fs'], 'T': d['band']['T'], 'f_range': d['band']['f_range']}
                        for d in plan.get('signals', [])] or
                       [{'shape': a['shape'], 'T': a['band']['T']} for a in plan.get('arrays', [])]}


def describe(plan):
    lines = ['  %s object, constructor: %s' % (plan['kind'], plan['ctor']),
             '  faults: %s' % plan.get('faults')]
    for i, op in enumerate(plan['ops']):
        lines.append('   op %2d: %s' % (i, {k: v for k, v in op.items()}))
    return '\n'.join(lines)
