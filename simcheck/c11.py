"""C11 - 2-D group analysis equals per-signal analysis, in order, under every
worker schedule. System: compute_features_2d(axis=0) / BycycleGroup.fit (real code)
running on SimPool (simulated workers, pipes, handler threads)."""
import copy

import numpy as np

from . import ref, pristine
from .core import Result, quiet, digest_of, run_maybe_in_thread
from .oracle import diff, fingerprint
from .simcfg import gen_sim_cfg, simpler_sim_cfgs
from .simpool import Sim, Installed, SimDeadlock
from .workload import thorough, gen_band, gen_signal_spec, build_signal, gen_cf_kwargs, \
    gen_thresholds, gen_burst_kwargs, gen_find_extrema_kwargs

ID = 'C11'
RULE = ('one evaluation = one seeded simulated execution of compute_features_2d(axis=0) or '
        'BycycleGroup.fit on a generated 2-D array with pairwise different rows, under one seeded '
        'SimPool schedule + fault sequence; two evaluations are the same case when their abstract '
        'event sequences (feed/take/finish/deliver with job and row index, worker ids dropped) are '
        'equal; a case is non-trivial when worker completion order differs from submission order')
REAL = ['bycycle.group.features.compute_features_2d', 'bycycle.group.features._proxy_2d',
        'bycycle.group.utils.progress_bar', 'bycycle.group.utils.check_kwargs_shape',
        'bycycle.objs.fit.BycycleGroup', 'bycycle.features.compute_features and everything below',
        'multiprocessing.pool.Pool.imap/map/... and IMapIterator/MapResult/ApplyResult (stdlib, unmodified)',
        'pickle round trip of tasks and results']
STUB = ['worker processes, pipes, task/result/worker handler threads and blocking waits (SimPool)',
        'multiprocessing.cpu_count (seeded)', 'tqdm (absent or 10-line stub)']
ASSUMPTIONS = [
    'SimPool models transport and scheduling of multiprocessing.Pool; fork-time copies of module '
    'globals are modelled only by the pickle boundary on tasks and results',
    'death of a busy worker, pickling failures and OOM are not injected (the property promises '
    'nothing under them)',
    'the reference for row i is compute_features on fresh copies, i.e. the same tree\'s '
    'single-signal code: C11 is about pairing and order, not about the analysis itself',
]
PROGRESS_KEYS = ('cycles', 'amp')


def gen_plan(wl, fr, idx):
    band = gen_band(wl)
    R = wl.choices((1, 2, 3, 4, 5, 6), weights=(8, 17, 25, 20, 15, 15))[0]
    if wl.random() < (0.3 if thorough() else 0.12):      # many rows per worker
        R = wl.randint(7, 16 if thorough() else 12)
    rows = [gen_signal_spec(wl, band, i) for i in range(R)]
    plan = {'band': band, 'rows': rows}
    entry = 'object' if wl.random() < 0.3 else 'function'
    plan['entry'] = entry
    if entry == 'function':
        r = wl.random()
        if r < 0.15:
            plan['options'] = None
        elif r < 0.5:
            plan['options'] = {'shared': gen_cf_kwargs(wl)}
        elif wl.random() < 0.5:
            plan['options'] = {'list': [gen_cf_kwargs(wl) for _ in range(R)]}
        else:
            # option sets repeated across rows (e.g. [A, B, B, A]); optionally as the same dict object
            palette = [gen_cf_kwargs(wl) for _ in range(wl.choice((2, 2, 3)))]
            plan['options'] = {'list': [copy.deepcopy(wl.choice(palette)) for _ in range(R)]}
            plan['alias_equal'] = wl.random() < 0.5
        plan['return_samples'] = wl.random() < 0.6
    else:
        method = wl.choice(('cycles', 'cycles', 'amp'))
        th = gen_thresholds(wl, method, shorthand=True) if wl.random() < 0.75 else None
        plan['ctor'] = {'center_extrema': wl.choice(('peak', 'trough')), 'burst_method': method,
                        'burst_kwargs': gen_burst_kwargs(wl, method), 'thresholds': th,
                        'find_extrema_kwargs': gen_find_extrema_kwargs(wl),
                        'return_samples': wl.random() < 0.6}
        plan['prefit'] = wl.random() < 0.4
    plan['n_jobs'] = wl.choice(sorted({1, 2, 3, max(1, R - 1), R, R + 1, 2 * R + 1}) + [-1])
    if R >= 7 and wl.random() < 0.5:
        plan['n_jobs'] = wl.choice((1, 2))             # many rows per worker
    if wl.random() < (0.4 if R >= 7 else 0.25):
        plan['array_variant'] = wl.choice(('fortran', 'strided', 'f32', 'swapview', 'revview'))
    plan['positional'] = wl.random() < 0.3          # documented parameter order is API too
    plan['precall'] = entry == 'function' and wl.random() < 0.25
    plan['f_range_list'] = wl.random() < 0.2
    plan['fs_float'] = wl.random() < 0.2
    plan['from_thread'] = wl.random() < 0.15
    if wl.random() < 0.2:
        # an earlier group call in the same process (on the same object) that FAILED: a flat row among
        # `extra` more rows, or an unknown progress-bar name; the judged call comes afterwards
        plan['prefail'] = {'kind': wl.choice(('flat_row', 'flat_row', 'bad_progress')), 'extra': wl.randint(0, 3),
                           'flat_at': wl.randrange(R + 3), 'n_jobs': wl.choice((1, 2, 3))}
    plan['progress'] = wl.choice((None, None, 'tqdm', 'tqdm.notebook'))
    plan['tqdm'] = wl.choice(('absent', 'stub'))
    if wl.random() < 0.05 and R >= 2:
        rows[wl.randrange(R)]['flat'] = True      # poison row: its analysis raises
    plan['sim'] = gen_sim_cfg(fr, R)
    if plan['n_jobs'] > R:
        plan['sim']['faults']['oversubscribe'] = True
    if any(r.get('flat') for r in rows):
        plan['sim']['faults']['poison_row'] = True
    return plan


def row_settings(plan, i):
    """(settings dict without return_samples, return_samples) the reference uses for row i."""
    if plan['entry'] == 'object':
        s = ref.object_settings_checked(plan['ctor'], 'group')
        rs = s.pop('return_samples')
        return s, rs
    opt = plan.get('options')
    if opt is None:
        s = {}
    elif 'shared' in opt:
        s = copy.deepcopy(opt['shared'])
    else:
        s = copy.deepcopy(opt['list'][i])
    s.pop('return_samples', None)
    return s, plan['return_samples']


def method_of(settings):
    return settings.get('burst_method', 'cycles')


def _scramble(kw):
    """Earlier values of the caller's option object(s): entries rotated, centre extremum flipped."""
    dicts = kw if isinstance(kw, list) else [kw]
    if isinstance(kw, list) and len(kw) > 1:
        kw[:] = kw[1:] + kw[:1]
    for d in {id(x): x for x in dicts}.values():
        d['center_extrema'] = 'trough' if d.get('center_extrema', 'peak') == 'peak' else 'peak'


def _restore(kw, final):
    """In-place edit back to the present values (same objects, new contents)."""
    if isinstance(kw, list):
        if len(kw) > 1:
            kw[:] = kw[-1:] + kw[:-1]
        pairs = {id(d): (d, f) for d, f in zip(kw, final)}
        for d, f in pairs.values():
            d.clear()
            d.update(f)
    else:
        kw.clear()
        kw.update(final)


def _variant(arr, v):
    """Other memory layouts / dtypes of the same values (a seeded subset of runs)."""
    if v == 'fortran':
        return np.asfortranarray(arr)
    if v == 'strided':                       # non-contiguous view into a larger buffer
        base = np.zeros(arr.shape[:-1] + (2 * arr.shape[-1] + 1,))
        base[..., 1::2] = arr
        return base[..., 1::2]
    if v == 'f32':
        return arr.astype(np.float32)
    if v == 'swapview':                      # first two axes permuted in memory, logical shape unchanged
        return np.swapaxes(np.ascontiguousarray(np.swapaxes(arr, 0, 1)), 0, 1)
    if v == 'revview':                       # negative stride along the first axis
        return arr[::-1].copy()[::-1]
    return arr


def _failing_call(plan, sigs, fs, f_range, call, res):
    """The earlier call that fails (nothing is demanded of it): more rows than the judged call has,
    one of them flat, or a progress-bar name the library rejects."""
    pf = plan['prefail']
    extra = [sigs[k % len(sigs)][::-1] * (1.5 + k) for k in range(pf['extra'])]
    big = np.array(list(sigs) + extra)
    progress = None
    if pf['kind'] == 'flat_row':
        big[pf['flat_at'] % len(big)] = 0.0
    else:
        progress = 'bar'
    try:
        call(big, pf['n_jobs'], progress)
    except Exception:
        res.stats['probe.earlier_call_failed'] += 1
        res.stats['fault.earlier_call_failed'] += 1
    else:
        res.stats['earlier_call_did_not_fail'] += 1


def execute(plan, tape):
    res = Result()
    band = plan['band']
    fs, f_range = band['fs'], tuple(band['f_range'])
    if plan.get('f_range_list'):
        f_range = list(f_range)
    if plan.get('fs_float'):
        fs = float(fs)
    sigs = _variant(np.array([build_signal(s, band) for s in plan['rows']]), plan.get('array_variant'))
    R = len(sigs)

    with quiet(), pristine.active():
        refs = []
        for i in range(R):
            s, rs = row_settings(plan, i)
            o = ref.ref_features(sigs[i], fs, f_range, s, rs)
            refs.append(o)
            if not plan['rows'][i].get('flat'):
                m = method_of(s)
                res.stats['attempt.' + m] += 1
                if o[0] == 'ok':
                    res.stats['progress.' + m] += 1

    sim = Sim(plan['sim'], tape)
    tq = ref.TqdmStub()
    tq.install(plan.get('tqdm') == 'stub')
    out, exc, bg = None, None, None
    try:
        with quiet(), Installed(sim):
            def _sut():
                nonlocal out, bg
                if plan['entry'] == 'function':
                    from bycycle.group import compute_features_2d
                    opt = plan.get('options')
                    if opt is None:
                        kw = None
                    elif 'shared' in opt:
                        kw = ref.live(opt['shared'])
                    else:
                        kw = [ref.live(o) for o in opt['list']]
                        if plan.get('alias_equal'):      # equal option sets are one and the same object
                            for a in range(len(kw)):
                                for b in range(a):
                                    if opt['list'][a] == opt['list'][b]:
                                        kw[a] = kw[b]
                                        break
                    if plan.get('precall') and kw is not None:
                        # the caller used the very same option object(s) in an earlier call and edited
                        # them in place since: the result must reflect their present values
                        final = copy.deepcopy(kw)
                        _scramble(kw)
                        try:
                            compute_features_2d(sigs[::-1].copy(), fs, f_range, kw, 0, plan['return_samples'], 1, None)
                        except Exception:
                            pass        # nothing is demanded of the earlier call
                        _restore(kw, final)
                    if plan.get('prefail'):
                        kwf = None if isinstance(kw, list) else kw
                        _failing_call(plan, sigs, fs, f_range, lambda big, nj, pg: compute_features_2d(
                            big, fs, f_range, kwf, 0, plan['return_samples'], nj, pg), res)
                    if plan.get('positional'):
                        out = compute_features_2d(sigs, fs, f_range, kw, 0, plan['return_samples'],
                                                  plan['n_jobs'], plan['progress'])
                    else:
                        out = compute_features_2d(sigs, fs, f_range, compute_features_kwargs=kw, axis=0,
                                                  return_samples=plan['return_samples'],
                                                  n_jobs=plan['n_jobs'], progress=plan['progress'])
                else:
                    from bycycle.objs import BycycleGroup
                    c = ref.live(plan['ctor'])
                    if plan.get('positional'):
                        bg = BycycleGroup(c['center_extrema'], c['burst_method'], c['burst_kwargs'],
                                          c['thresholds'], c['find_extrema_kwargs'], c['return_samples'])
                    else:
                        bg = BycycleGroup(center_extrema=c['center_extrema'], burst_method=c['burst_method'],
                                          burst_kwargs=c['burst_kwargs'], thresholds=c['thresholds'],
                                          find_extrema_kwargs=c['find_extrema_kwargs'],
                                          return_samples=c['return_samples'])
                    if plan.get('prefit'):
                        # the object was used before: an earlier fit on other data of the same shape
                        bg.fit(-sigs[::-1] * 0.5, fs, f_range, axis=0, n_jobs=1, progress=None)
                    if plan.get('prefail'):
                        _failing_call(plan, sigs, fs, f_range, lambda big, nj, pg: bg.fit(
                            big, fs, f_range, axis=0, n_jobs=nj, progress=pg), res)
                    if plan.get('positional'):
                        bg.fit(sigs, fs, f_range, 0, plan['n_jobs'], plan['progress'])
                    else:
                        bg.fit(sigs, fs, f_range, axis=0, n_jobs=plan['n_jobs'], progress=plan['progress'])
                    out = bg.df_features
            try:
                run_maybe_in_thread(_sut, plan.get('from_thread'))
            except SimDeadlock as e:
                res.violate('no-return', 'deadlock', 'the call blocks forever: %s' % e)
            except Exception as e:
                exc = e
    finally:
        tq.uninstall()
    sim.finish_run()

    all_ref_ok = all(o[0] == 'ok' for o in refs)
    if res.vclass is None:
        if exc is not None:
            if all_ref_ok:
                res.violate('unexpected-raise', type(exc).__name__,
                            'group call raised %s(%s) although every row analyses alone'
                            % (type(exc).__name__, str(exc)[:160]))
            else:
                res.stats['group_raised_with_failing_row'] += 1
        else:
            check_result(plan, res, out, refs, R)
            if res.vclass is None and bg is not None:
                check_models(res, bg, out, sigs, fs, f_range, R)

    # reach probes
    if plan['n_jobs'] > R:
        res.stats['probe.n_jobs_gt_rows'] += 1
        res.stats['fault.oversubscribe'] += 1
    if R == 1:
        res.stats['probe.single_row'] += 1
    if plan.get('prefit'):
        res.stats['probe.object_refit'] += 1
    if plan.get('from_thread'):
        res.stats['probe.called_from_helper_thread'] += 1
    if plan.get('precall') and plan.get('options'):
        res.stats['probe.earlier_call_with_same_option_objects'] += 1
    if plan.get('options') and 'list' in (plan.get('options') or {}) and len(
            {repr(sorted(o.items())) for o in plan['options']['list']}) < R:
        res.stats['probe.list_with_repeated_option_sets'] += 1
    if plan['entry'] == 'object':
        res.stats['probe.object_entry'] += 1
    elif plan.get('options') and 'list' in plan['options']:
        res.stats['probe.per_row_list'] += 1
    if any(r.get('flat') for r in plan['rows']):
        res.stats['fault.poison_row'] += 1
    if plan.get('progress') and plan.get('tqdm') == 'stub' and tq.bars:
        res.stats['probe.progress_bar_used'] += 1
    res.stats['mode.' + sim.mode] += 1
    res.stats['pool_seam_hits'] += sim.seam_hits
    res.stats.update(sim.stats)
    res.sim_time = sum(sim.makespans) if sim.mode == 'timed' else 0.0
    res.steps = sim.steps
    sig = sim.schedule_signature()
    res.inter_sig = digest_of(sig)
    res.nontrivial = sim.stats.get('probe.completion_order_permuted', 0) > 0
    fps = [fingerprint(x) for x in (out or [])] if isinstance(out, (list, tuple)) else repr(type(out))
    res.digest = digest_of(sim.log, fps, res.vclass, res.signature)
    res.rdigest = digest_of(fps, res.vclass, res.signature)
    return res


def check_result(plan, res, out, refs, R):
    import pandas as pd
    if not isinstance(out, (list, tuple)) or len(out) != R:
        res.violate('shape-mismatch', 'length',
                    'expected a list of %d tables, got %s of length %s'
                    % (R, type(out).__name__, len(out) if hasattr(out, '__len__') else '?'))
        return
    for i in range(R):
        if refs[i][0] != 'ok':
            continue
        if not isinstance(out[i], pd.DataFrame):
            res.violate('shape-mismatch', 'entry-type', 'entry %d is %s' % (i, type(out[i]).__name__))
            return
        d = diff(out[i], refs[i][1])
        if d:
            other = [j for j in range(R) if j != i and refs[j][0] == 'ok' and not diff(out[i], refs[j][1])]
            if other:
                res.violate('row-table-mismatch', 'permuted',
                            'position %d holds the table of row %d (of %d rows): %s' % (i, other[0], R, d))
            else:
                res.violate('row-table-mismatch', 'value',
                            'position %d differs from compute_features(row %d, its options): %s' % (i, i, d))
            return
        res.stats['rows_compared'] += 1


def check_models(res, bg, out, sigs, fs, f_range, R):
    models = bg.models
    try:
        n_models, n_iter = len(models), len(list(bg))
    except Exception:
        n_models = n_iter = -1
    if n_models != R or len(bg) != R or n_iter != R:
        res.violate('models-mismatch', 'length', 'models has length %s, expected %d' % (n_models, R))
        return
    # position by position, through every access path (attribute, indexing, iteration); only
    # contents are compared - whether the same object comes back twice is not part of the property
    for i, m_it in enumerate(bg):
        for how, m in (('models[%d]' % i, models[i]), ('group[%d]' % i, bg[i]), ('iteration item %d' % i, m_it)):
            d = diff(m.df_features, out[i]) or diff(np.asarray(m.sig), sigs[i])
            if d:
                res.violate('models-mismatch', 'mirror', '%s does not mirror df_features[%d]/sigs[%d]: %s'
                            % (how, i, i, d))
                return
        m = models[i]
        if m.fs != fs or tuple(m.f_range) != tuple(f_range) or m.burst_method != bg.burst_method \
                or m.center_extrema != bg.center_extrema or m.return_samples != bg.return_samples:
            res.violate('models-mismatch', 'settings', 'models[%d] settings differ from the group\'s' % i)
            return
    res.stats['models_checked'] += R


def progress_violation(stats, min_attempts=10):
    for m in PROGRESS_KEYS:
        if stats.get('attempt.' + m, 0) >= min_attempts and stats.get('progress.' + m, 0) == 0:
            return ('no-progress', 'burst_method=' + m,
                    'none of %d well-formed single-signal analyses with burst_method=%r returned; the '
                    'property is vacuous for this method' % (stats['attempt.' + m], m), m)
    return None


def shrink(plan):
    simple = {'mode': 'fifo', 'bg_steps': 0, 'inq_cap': 64, 'cpu_count': 4, 'base_ms': 10.0, 'faults': {}}
    if plan['sim'] != simple:
        p = copy.deepcopy(plan)
        p['sim'] = simple
        yield p
        p = copy.deepcopy(plan)
        p['sim'] = dict(simple, mode='lifo')
        yield p
    R = len(plan['rows'])
    # drop a row
    if R > 1:
        for k in range(R):
            p = copy.deepcopy(plan)
            del p['rows'][k]
            if p['entry'] == 'function' and p.get('options') and 'list' in p['options']:
                del p['options']['list'][k]
            yield p
    # simpler options
    if plan['entry'] == 'function' and plan.get('options'):
        opt = plan['options']
        if 'list' in opt:
            p = copy.deepcopy(plan)
            p['options'] = {'shared': opt['list'][0]}
            yield p
            for i, o in enumerate(opt['list']):
                for k in sorted(o):
                    p = copy.deepcopy(plan)
                    del p['options']['list'][i][k]
                    yield p
        else:
            p = copy.deepcopy(plan)
            p['options'] = None
            yield p
            for k in sorted(opt['shared']):
                p = copy.deepcopy(plan)
                del p['options']['shared'][k]
                yield p
    for key, val in (('n_jobs', 1), ('n_jobs', 2), ('progress', None), ('tqdm', 'absent'),
                     ('return_samples', True), ('prefit', False), ('alias_equal', False),
                     ('array_variant', None), ('positional', False), ('f_range_list', False),
                     ('fs_float', False), ('from_thread', False), ('precall', False), ('prefail', None)):
        if key in plan and plan[key] != val:
            p = copy.deepcopy(plan)
            p[key] = val
            yield p
    for c in simpler_sim_cfgs(plan['sim']):
        p = copy.deepcopy(plan)
        p['sim'] = c
        yield p
    # simpler signals
    for k, s in enumerate(plan['rows']):
        if s.get('flat'):
            continue
        if len(s['comps']) > 1:
            p = copy.deepcopy(plan)
            p['rows'][k]['comps'] = s['comps'][:1]
            yield p
        for key, val in (('am', None), ('noise_sd', 0.0), ('dc', 0)):
            if s.get(key):
                p = copy.deepcopy(plan)
                p['rows'][k][key] = val
                yield p


def sample_view(plan, res):
    return {'rows': len(plan['rows']), 'T': plan['band']['T'], 'fs': plan['band']['fs'],
            'f_range': plan['band']['f_range'], 'entry': plan['entry'],
            'options': plan.get('options') if plan['entry'] == 'function' else plan.get('ctor'),
            'n_jobs': plan['n_jobs'], 'progress': plan['progress'], 'tqdm': plan['tqdm'],
            'sim': plan['sim'], 'simulator_steps': res.steps,
            'completion_order_permuted': bool(res.nontrivial)}


def describe(plan):
    lines = ['  plan: %d rows x %d samples, fs=%s, f_range=%s, entry=%s, n_jobs=%s, progress=%s/%s'
             % (len(plan['rows']), plan['band']['T'], plan['band']['fs'], plan['band']['f_range'],
                plan['entry'], plan['n_jobs'], plan['progress'], plan['tqdm']),
             '  options: %s' % (plan.get('options') if plan['entry'] == 'function' else plan.get('ctor')),
             '  simulator: %s' % plan['sim']]
    return '\n'.join(lines)
