"""SimExecutor: concurrent.futures.ProcessPoolExecutor / ThreadPoolExecutor on top of the
simulated pool, so that code which reaches parallelism through concurrent.futures stays
under the seeded scheduler. Futures are the *real* `concurrent.futures.Future`; only their
blocking primitives (the Condition inside a Future, the Event inside the waiters used by
`wait` / `as_completed`) are replaced by objects whose wait() drives the simulator."""
import concurrent.futures as cf
import concurrent.futures._base as cfb
import concurrent.futures.process as cfp
import concurrent.futures.thread as cft
import threading as _real_threading

from .simpool import SimPool, _SimCondition, _SimEvent

_ORIG = {'ppe': cfp.ProcessPoolExecutor, 'tpe': cft.ThreadPoolExecutor, 'threading': cfb.threading}


class _ThreadingShim:
    """Stands in for the `threading` module inside concurrent.futures._base."""

    def __init__(self, sim):
        self._sim = sim
        self._n = 0

    def Condition(self, lock=None):
        self._n += 1
        return _SimCondition(self._sim, 'future-%d' % self._n, poll_on_enter=True)

    def Event(self):
        self._n += 1
        return _SimEvent(self._sim, 'waiter-%d' % self._n)

    def __getattr__(self, name):
        return getattr(_real_threading, name)


def _pump_asyncio(sim):
    """Submitted from inside a running asyncio loop (loop.run_in_executor): the loop would sleep
    in its selector while nothing drives the simulator. Keep a callback on the loop that lets
    one simulator event happen per iteration until nothing is enabled any more."""
    import asyncio
    try:
        loop = asyncio.get_running_loop()
    except RuntimeError:
        return
    if getattr(loop, '_sim_pump_active', False):
        return
    loop._sim_pump_active = True

    def pump():
        if sim.step():
            loop.call_soon(pump)
        else:
            loop._sim_pump_active = False
    loop.call_soon(pump)


def make_executor_classes(sim):
    class SimExecutor(cf.Executor):
        _use_pickle = True

        def __init__(self, max_workers=None, mp_context=None, initializer=None, initargs=(),
                     max_tasks_per_child=None, thread_name_prefix=''):
            if max_workers is not None and max_workers <= 0:
                raise ValueError("max_workers must be greater than 0")
            self._pool = SimPool(max_workers, initializer, initargs, max_tasks_per_child, None,
                                 sim=sim, use_pickle=self._use_pickle,
                                 daemonic_workers=False)      # executor workers may have children
            self._shutdown = False
            sim.stats['executors'] += 1

        def submit(self, fn, /, *args, **kwargs):
            if self._shutdown:
                raise RuntimeError('cannot schedule new futures after shutdown')
            fut = cf.Future()
            fut.set_running_or_notify_cancel()
            self._pool.apply_async(fn, args, kwargs, callback=fut.set_result,
                                   error_callback=fut.set_exception)
            _pump_asyncio(sim)
            return fut

        def map(self, fn, *iterables, timeout=None, chunksize=1):
            if chunksize < 1:
                raise ValueError("chunksize must be >= 1.")
            if chunksize == 1 or not self._use_pickle:
                return super().map(fn, *iterables, timeout=timeout)
            from functools import partial
            results = super().map(partial(cfp._process_chunk, fn),
                                  cfp._get_chunks(*iterables, chunksize=chunksize), timeout=timeout)
            return cfp._chain_from_iterable_of_lists(results)

        def shutdown(self, wait=True, *, cancel_futures=False):
            if self._shutdown:
                return
            self._shutdown = True
            self._pool.close()
            if wait:
                self._pool.join()
            self._pool.terminate()

    class SimProcessPoolExecutor(SimExecutor):
        _use_pickle = True

    class SimThreadPoolExecutor(SimExecutor):
        _use_pickle = False

        def __init__(self, max_workers=None, thread_name_prefix='', initializer=None, initargs=()):
            SimExecutor.__init__(self, max_workers, None, initializer, initargs)

    SimProcessPoolExecutor.__name__ = SimProcessPoolExecutor.__qualname__ = 'ProcessPoolExecutor'
    SimThreadPoolExecutor.__name__ = SimThreadPoolExecutor.__qualname__ = 'ThreadPoolExecutor'
    return SimProcessPoolExecutor, SimThreadPoolExecutor


def bindings(sim):
    """(object, attribute, replacement) triples for simpool.Installed."""
    ppe, tpe = make_executor_classes(sim)
    out = [(cfb, 'threading', _ThreadingShim(sim)),
           (cfp, 'ProcessPoolExecutor', ppe), (cft, 'ThreadPoolExecutor', tpe)]
    # the package resolves these lazily through __getattr__; pin them
    out += [(cf, 'ProcessPoolExecutor', ppe), (cf, 'ThreadPoolExecutor', tpe)]
    return out, {id(_ORIG['ppe']): ppe, id(_ORIG['tpe']): tpe}
