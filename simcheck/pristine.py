"""Process isolation, so that neither a run nor a reference evaluation can inherit hidden
state (module-level caches, mutated defaults) from anything executed before it.

* `fork_call(fn)`: run `fn` in a forked child and return its pickled outcome. The caller
  (harness worker / main process) never executes code of the system under test itself, so
  every run starts from the same pristine image: one seed = one repeatable execution,
  independent of which runs the worker executed earlier.
* `Zygote`: forked at the start of a run, *before* the first call into the system under
  test. It never runs such code itself; for each request it forks an evaluator that
  computes one reference result on the values it was sent and exits. Every reference
  evaluation therefore has an empty call history, whatever the run has done meanwhile.
"""
import importlib
import os
import pickle
import select
import signal
import struct
import time
import traceback

ACTIVE = None        # the zygote of the current run (or None: evaluate inline)


def _write_msg(fd, payload):
    data = struct.pack('>Q', len(payload)) + payload
    view = memoryview(data)
    while view:
        n = os.write(fd, view)
        view = view[n:]


def _read_exact(fd, n, deadline=None):
    buf = bytearray()
    while len(buf) < n:
        if deadline is not None:
            left = deadline - time.time()
            if left <= 0:
                raise TimeoutError
            r, _, _ = select.select([fd], [], [], min(left, 5.0))
            if not r:
                continue
        chunk = os.read(fd, min(1 << 20, n - len(buf)))
        if not chunk:
            raise EOFError
        buf += chunk
    return bytes(buf)


def _read_msg(fd, deadline=None):
    (n,) = struct.unpack('>Q', _read_exact(fd, 8, deadline))
    return _read_exact(fd, n, deadline)


def fork_call(fn, timeout=None):
    """-> ('ok', value) | ('error', traceback text) | ('timeout', None)."""
    r, w = os.pipe()
    pid = os.fork()
    if pid == 0:
        code = 0
        try:
            os.close(r)
            try:
                os.setpgid(0, 0)        # own process group: every descendant can be removed at the end
            except OSError:
                pass
            try:
                payload = pickle.dumps(('ok', fn()), protocol=pickle.HIGHEST_PROTOCOL)
            except BaseException:
                payload = pickle.dumps(('error', traceback.format_exc()))
            _write_msg(w, payload)
        except BaseException:
            code = 1
        finally:
            os._exit(code)
    os.close(w)
    deadline = None if timeout is None else time.time() + timeout
    try:
        try:
            out = pickle.loads(_read_msg(r, deadline))
        except TimeoutError:
            try:
                os.kill(pid, signal.SIGKILL)
            except OSError:
                pass
            out = ('timeout', None)
        except EOFError:
            out = ('error', 'child exited without a result')
    finally:
        os.close(r)
        # the run is over (or timed out): remove it together with everything it started - zygote,
        # evaluators, simulated workers, and any process the code under test forked itself
        for target in (pid,):
            try:
                os.killpg(target, signal.SIGKILL)
            except OSError:
                try:
                    os.kill(target, signal.SIGKILL)
                except OSError:
                    pass
        try:
            os.waitpid(pid, 0)
        except OSError:
            pass
    return out


def resolve(ref):
    mod, _, name = ref.partition(':')
    obj = importlib.import_module(mod)
    for part in name.split('.'):
        obj = getattr(obj, part)
    return obj


class Zygote:
    """Pristine evaluation server. `call('module:function', *args, **kwargs)` evaluates the
    function in a fresh fork of the image the zygote was created in."""

    def __init__(self, prepare=None):
        self.calls = 0
        req_r, req_w = os.pipe()
        res_r, res_w = os.pipe()
        pid = os.fork()
        if pid == 0:
            try:
                os.close(req_w)
                os.close(res_r)
                if prepare is not None:
                    prepare()
                self._serve(req_r, res_w)
            finally:
                os._exit(0)
        os.close(req_r)
        os.close(res_w)
        self.pid, self._w, self._r = pid, req_w, res_r

    @staticmethod
    def _serve(req_r, res_w):
        while True:
            try:
                msg = _read_msg(req_r)
            except EOFError:
                return
            pid = os.fork()
            if pid == 0:
                code = 0
                try:
                    try:
                        ref, args, kwargs = pickle.loads(msg)
                        payload = pickle.dumps(('ok', resolve(ref)(*args, **kwargs)),
                                               protocol=pickle.HIGHEST_PROTOCOL)
                    except BaseException:
                        payload = pickle.dumps(('error', traceback.format_exc()))
                    _write_msg(res_w, payload)
                except BaseException:
                    code = 1
                finally:
                    os._exit(code)
            _, status = os.waitpid(pid, 0)
            if status != 0:
                _write_msg(res_w, pickle.dumps(('error', 'evaluator died with status %d' % status)))

    def call(self, ref, *args, **kwargs):
        self.calls += 1
        _write_msg(self._w, pickle.dumps((ref, args, kwargs), protocol=pickle.HIGHEST_PROTOCOL))
        kind, val = pickle.loads(_read_msg(self._r, time.time() + 300))
        if kind != 'ok':
            raise RuntimeError('pristine evaluation of %s failed:\n%s' % (ref, val))
        return val

    def close(self):
        for fd in (self._w, self._r):
            try:
                os.close(fd)
            except OSError:
                pass
        # do not rely on EOF: processes forked later (simulated workers) may hold copies of the
        # request pipe's write end
        try:
            os.kill(self.pid, signal.SIGKILL)
        except OSError:
            pass
        try:
            os.waitpid(self.pid, 0)
        except OSError:
            pass


class active:
    """with pristine.active(): ... -> a zygote serves reference evaluations for this run."""

    def __init__(self, prepare=None):
        self.prepare = prepare

    def __enter__(self):
        global ACTIVE
        self.z = Zygote(self.prepare)
        ACTIVE = self.z
        return self.z

    def __exit__(self, *exc):
        global ACTIVE
        ACTIVE = None
        self.z.close()
        return False


def call(ref, *args, **kwargs):
    """Evaluate in a pristine fork when a zygote is active, inline otherwise."""
    if ACTIVE is not None:
        return ACTIVE.call(ref, *args, **kwargs)
    return resolve(ref)(*args, **kwargs)
