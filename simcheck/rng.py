"""One integer decides everything: seed derivation and the decision tape.

No global `random` / `numpy.random` state and no clock is ever read here.
"""
import hashlib
import random


def H(*parts):
    """Stable 63-bit hash of the parts (independent of PYTHONHASHSEED)."""
    h = hashlib.sha256()
    for p in parts:
        h.update(repr(p).encode())
        h.update(b'\x1f')
    return int.from_bytes(h.digest()[:8], 'big') >> 1


class Tape:
    """Decision tape: every scheduling / fault decision of a run goes through
    `choose`. In record mode values are drawn from a PRNG seeded once; in
    replay mode they are read back from the recorded list (clamped into range,
    0 once the list is exhausted), so replay is a pure function of file + code.
    """

    def __init__(self, seed=None, replay=None):
        self.seed = seed
        self.replay = None if replay is None else list(replay)
        self.rng = random.Random(seed) if replay is None else None
        self.decisions = []
        self.labels = []

    def choose(self, n, label=''):
        if n <= 0:
            raise ValueError('choose(%r) for %s' % (n, label))
        pos = len(self.decisions)
        if self.replay is not None:
            v = self.replay[pos] % n if pos < len(self.replay) else 0
        else:
            v = self.rng.randrange(n)
        self.decisions.append(v)
        self.labels.append(label)
        return v

    def chance(self, num, den, label=''):
        """True with probability num/den. Value 0 (= the minimised tape) means False."""
        if num <= 0:
            return False
        return self.choose(den, label) >= den - num

    def pick(self, seq, label=''):
        return seq[self.choose(len(seq), label)]
