"""C12 - 3-D group results sit at the position of their signal, for the three axis
modes, under every worker schedule. Same simulator as C11."""
import copy

import numpy as np

from . import ref, pristine
from .core import Result, quiet, digest_of, run_maybe_in_thread
from .oracle import diff, fingerprint
from .simcfg import gen_sim_cfg, simpler_sim_cfgs
from .simpool import Sim, Installed, SimDeadlock
from .workload import thorough, gen_band, gen_signal_spec, build_signal, gen_cf_kwargs, \
    gen_thresholds, gen_burst_kwargs, gen_find_extrema_kwargs

ID = 'C12'
RULE = ('one evaluation = one seeded simulated execution of compute_features_3d or BycycleGroup.fit '
        'on a generated 3-D array (n0, n1 in 1..3, pairwise different signals) in one axis mode under '
        'one seeded SimPool schedule + fault sequence; cases are distinguished by (shape, axis, '
        'option-list shape, abstract event sequence); a case is non-trivial when n0 != n1 or worker '
        'completion order differs from submission order')
REAL = ['bycycle.group.features.compute_features_3d (axis 0, 1, (0,1))', 'bycycle.group.features._proxy_3d',
        'nested compute_features_2d(axis=None) inside simulated workers',
        'nested compute_features_2d(axis=0) with its own pool for axis=(0,1)',
        'bycycle.objs.fit.BycycleGroup (3-D)', 'bycycle.features.compute_features and below',
        'multiprocessing.pool.Pool methods and result classes (stdlib, unmodified)',
        'pickle round trip of tasks and results']
STUB = ['worker processes, pipes, handler threads and blocking waits (SimPool)',
        'multiprocessing.cpu_count (seeded)', 'tqdm (absent or stub)']
ASSUMPTIONS = [
    'SimPool models transport and scheduling of multiprocessing.Pool (see C11)',
    'only documented-valid option-list shapes are generated (what must be rejected is C19)',
    'reference for axis 0/1 slices is compute_features_2d(slice, axis=None) called directly on fresh '
    'copies; for axis (0,1) compute_features on the single signal',
]
PROGRESS_KEYS = ('cycles', 'amp', 'axis0', 'axis1', 'axis01')


def _axis(plan):
    a = plan['axis']
    return (0, 1) if a == '01' else a


def gen_plan(wl, fr, idx):
    band = gen_band(wl)
    if wl.random() < 0.65:
        n0, n1 = wl.choice([(1, 2), (2, 1), (1, 3), (3, 1), (2, 3), (3, 2), (1, 2), (2, 3), (3, 2)])
    else:
        n0 = n1 = wl.choice((1, 2, 2, 3))
    r4 = wl.random()
    if r4 < (0.35 if thorough() else 0.12):      # four slices along one dimension
        n0, n1 = wl.choice([(4, 1), (1, 4), (4, 2), (2, 4), (4, 3), (3, 4)] + ([(4, 4), (5, 2), (2, 5)] if thorough() else []))
    sigs = [[gen_signal_spec(wl, band, i * n1 + j) for j in range(n1)] for i in range(n0)]
    plan = {'band': band, 'shape': [n0, n1], 'sigs': sigs}
    plan['axis'] = wl.choice((0, 1, '01', '01'))
    entry = 'object' if wl.random() < 0.3 else 'function'
    plan['entry'] = entry
    if entry == 'function':
        r = wl.random()
        # per-slice lists share the centre extremum (documented requirement when axis is None)
        if r < 0.12:
            plan['options'] = None
        elif r < 0.45:
            plan['options'] = {'shared': gen_cf_kwargs(wl)}
        else:
            # all-different option sets, or a small palette with repeats (e.g. [A, B, B, A])
            palette = None if wl.random() < 0.55 else [gen_cf_kwargs(wl) for _ in range(wl.choice((2, 2, 3)))]

            def one():
                return gen_cf_kwargs(wl) if palette is None else copy.deepcopy(wl.choice(palette))
            if plan['axis'] == '01':
                plan['options'] = {'list2': [[one() for _ in range(n1)] for _ in range(n0)]}
            else:
                n = n0 if plan['axis'] == 0 else n1
                plan['options'] = {'list1': [one() for _ in range(n)]}
            plan['alias_equal'] = palette is not None and wl.random() < 0.5
        plan['return_samples'] = wl.random() < 0.6
    else:
        method = wl.choice(('cycles', 'cycles', 'amp'))
        th = gen_thresholds(wl, method, shorthand=True) if wl.random() < 0.75 else None
        plan['ctor'] = {'center_extrema': wl.choice(('peak', 'trough')), 'burst_method': method,
                        'burst_kwargs': gen_burst_kwargs(wl, method), 'thresholds': th,
                        'find_extrema_kwargs': gen_find_extrema_kwargs(wl),
                        'return_samples': wl.random() < 0.6}
        plan['prefit'] = wl.random() < 0.4
        plan['prefit_axis'] = wl.choice((0, 1, '01'))
    ntasks = n0 * n1 if plan['axis'] == '01' else (n0 if plan['axis'] == 0 else n1)
    plan['n_jobs'] = wl.choice(sorted({1, 2, 3, ntasks, ntasks + 1}) + [-1])
    if wl.random() < 0.25:
        plan['array_variant'] = wl.choice(('fortran', 'strided', 'f32', 'swapview', 'revview'))
    plan['positional'] = wl.random() < 0.3
    plan['f_range_list'] = wl.random() < 0.2
    plan['fs_float'] = wl.random() < 0.2
    plan['from_thread'] = wl.random() < 0.15
    plan['precall3d'] = entry == 'function' and wl.random() < 0.2
    if wl.random() < 0.2:
        # an earlier attempt in the same process (on the same object) that FAILED - the same data with a
        # progress-bar name the library rejects, or data with one flat signal - followed by the judged call
        plan['prefail'] = {'kind': wl.choice(('bad_progress', 'bad_progress', 'flat')),
                           'axis': wl.choice(('same', 'same', 0, 1, '01')), 'flat_at': [wl.randrange(5), wl.randrange(5)],
                           'n_jobs': wl.choice((1, 2, 3))}
    plan['progress'] = wl.choice((None, None, 'tqdm'))
    plan['tqdm'] = wl.choice(('absent', 'stub'))
    plan['sim'] = gen_sim_cfg(fr, ntasks)
    if plan['n_jobs'] > ntasks:
        plan['sim']['faults']['oversubscribe'] = True
    return plan


def settings_at(plan, i, j):
    """Settings (without return_samples) and return_samples applying to signal [i, j]."""
    if plan['entry'] == 'object':
        s = ref.object_settings_checked(plan['ctor'], 'group')
        rs = s.pop('return_samples')
        return s, rs
    opt = plan.get('options')
    if opt is None:
        s = {}
    elif 'shared' in opt:
        s = copy.deepcopy(opt['shared'])
    elif 'list2' in opt:
        s = copy.deepcopy(opt['list2'][i][j])
    else:
        s = copy.deepcopy(opt['list1'][i if plan['axis'] == 0 else j])
    s.pop('return_samples', None)
    return s, plan['return_samples']


def live_options(plan):
    opt = plan.get('options')
    if opt is None:
        return None
    if 'shared' in opt:
        return ref.live(opt['shared'])
    seen = []

    def mk(o):
        if plan.get('alias_equal'):          # equal option sets are one and the same dict object
            for spec, obj in seen:
                if spec == o:
                    return obj
        obj = ref.live(o)
        seen.append((o, obj))
        return obj
    if 'list1' in opt:
        return [mk(o) for o in opt['list1']]
    return [[mk(o) for o in row] for row in opt['list2']]


def ref_slice(sl, fs, f_range, settings, rs):
    """Reference for one 2-D slice: the flattened-epoch analysis, called directly (pristine fork)."""
    kw = ref.live(settings)
    if 'threshold_kwargs' in kw and kw['threshold_kwargs'] is None:
        del kw['threshold_kwargs']
    return ref.ref_group(sl, fs, f_range, kw, None, rs)


def _variant(arr, v):
    """Other memory layouts / dtypes of the same values (a seeded subset of runs)."""
    if v == 'fortran':
        return np.asfortranarray(arr)
    if v == 'strided':                       # non-contiguous view into a larger buffer
        base = np.zeros(arr.shape[:-1] + (2 * arr.shape[-1] + 1,))
        base[..., 1::2] = arr
        return base[..., 1::2]
    if v == 'f32':
        return arr.astype(np.float32)
    if v == 'swapview':                      # first two axes permuted in memory, logical shape unchanged
        return np.swapaxes(np.ascontiguousarray(np.swapaxes(arr, 0, 1)), 0, 1)
    if v == 'revview':                       # negative stride along the first axis
        return arr[::-1].copy()[::-1]
    return arr


def execute(plan, tape):
    res = Result()
    band = plan['band']
    fs, f_range = band['fs'], tuple(band['f_range'])
    if plan.get('f_range_list'):
        f_range = list(f_range)
    if plan.get('fs_float'):
        fs = float(fs)
    n0, n1 = plan['shape']
    sigs = _variant(np.array([[build_signal(s, band) for s in row] for row in plan['sigs']]), plan.get('array_variant'))
    axis = _axis(plan)
    akey = 'axis' + str(plan['axis'])

    # ---- reference (sequential, fresh copies, no pool) -----------------------------
    with quiet(), pristine.active():
        if axis == (0, 1):
            refs = [[None] * n1 for _ in range(n0)]
            for i in range(n0):
                for j in range(n1):
                    s, rs = settings_at(plan, i, j)
                    refs[i][j] = ref.ref_features(sigs[i, j], fs, f_range, s, rs)
                    m = s.get('burst_method', 'cycles')
                    res.stats['attempt.' + m] += 1
                    res.stats['attempt.' + akey] += 1
                    if refs[i][j][0] == 'ok':
                        res.stats['progress.' + m] += 1
                        res.stats['progress.' + akey] += 1
        else:
            n = n0 if axis == 0 else n1
            refs = []
            for k in range(n):
                s, rs = settings_at(plan, k, k)
                sl = sigs[k] if axis == 0 else sigs[:, k]
                o = ref_slice(sl, fs, f_range, s, rs)
                refs.append(o)
                m = s.get('burst_method', 'cycles')
                res.stats['attempt.' + m] += 1
                res.stats['attempt.' + akey] += 1
                if o[0] == 'ok':
                    res.stats['progress.' + m] += 1
                    res.stats['progress.' + akey] += 1

    def failing_call(call):
        """The earlier attempt that fails; nothing is demanded of it."""
        pf = plan['prefail']
        ax = axis if pf['axis'] == 'same' else ((0, 1) if pf['axis'] == '01' else pf['axis'])
        data, progress = sigs, 'bar'
        if pf['kind'] == 'flat':
            data, progress = np.array(sigs), None
            data[pf['flat_at'][0] % data.shape[0], pf['flat_at'][1] % data.shape[1]] = 0.0
        try:
            call(data, ax, pf['n_jobs'], progress)
        except Exception:
            res.stats['probe.earlier_attempt_failed'] += 1
            res.stats['fault.earlier_attempt_failed'] += 1
        else:
            res.stats['earlier_attempt_did_not_fail'] += 1

    # ---- system under simulation -----------------------------------------------------
    sim = Sim(plan['sim'], tape)
    tq = ref.TqdmStub()
    tq.install(plan.get('tqdm') == 'stub')
    out, exc, bg = None, None, None
    try:
        with quiet(), Installed(sim):
            def _sut():
                nonlocal out, bg
                if plan['entry'] == 'function':
                    from bycycle.group import compute_features_3d
                    if plan.get('precall3d'):
                        try:
                            compute_features_3d(-sigs[::-1, ::-1] * 0.5, fs, f_range, None, axis, True, 1, None)
                        except Exception:
                            pass        # nothing is demanded of the earlier call
                    if plan.get('prefail'):
                        failing_call(lambda data, ax, nj, pg: compute_features_3d(
                            data, fs, f_range, None, ax, plan['return_samples'], nj, pg))
                    if plan.get('positional'):
                        out = compute_features_3d(sigs, fs, f_range, live_options(plan), axis,
                                                  plan['return_samples'], plan['n_jobs'], plan['progress'])
                    else:
                        out = compute_features_3d(sigs, fs, f_range, compute_features_kwargs=live_options(plan),
                                                  axis=axis, return_samples=plan['return_samples'],
                                                  n_jobs=plan['n_jobs'], progress=plan['progress'])
                else:
                    from bycycle.objs import BycycleGroup
                    c = ref.live(plan['ctor'])
                    bg = BycycleGroup(center_extrema=c['center_extrema'], burst_method=c['burst_method'],
                                      burst_kwargs=c['burst_kwargs'], thresholds=c['thresholds'],
                                      find_extrema_kwargs=c['find_extrema_kwargs'],
                                      return_samples=c['return_samples'])
                    if plan.get('prefit'):
                        # the object was used before: an earlier fit on other data of the same shape
                        bg.fit(-sigs[::-1, ::-1] * 0.5, fs, f_range, axis=plan['prefit_axis'] if plan['prefit_axis'] != '01' else (0, 1),
                               n_jobs=1, progress=None)
                    if plan.get('prefail'):
                        failing_call(lambda data, ax, nj, pg: bg.fit(data, fs, f_range, axis=ax, n_jobs=nj,
                                                                     progress=pg))
                    if plan.get('positional'):
                        bg.fit(sigs, fs, f_range, axis, plan['n_jobs'], plan['progress'])
                    else:
                        bg.fit(sigs, fs, f_range, axis=axis, n_jobs=plan['n_jobs'], progress=plan['progress'])
                    out = bg.df_features
            try:
                run_maybe_in_thread(_sut, plan.get('from_thread'))
            except SimDeadlock as e:
                res.violate('no-return', 'deadlock', 'the call blocks forever: %s' % e)
            except Exception as e:
                exc = e
    finally:
        tq.uninstall()
    sim.finish_run()

    flat_refs = [o for row in refs for o in row] if axis == (0, 1) else refs
    all_ref_ok = all(o[0] == 'ok' for o in flat_refs)
    if res.vclass is None:
        if exc is not None:
            if all_ref_ok:
                res.violate('unexpected-raise', type(exc).__name__,
                            'group call raised %s(%s) although every signal/slice analyses alone'
                            % (type(exc).__name__, str(exc)[:160]))
            else:
                res.stats['group_raised_with_failing_slice'] += 1
        else:
            check_result(plan, res, out, refs, axis, n0, n1)
            if res.vclass is None and bg is not None:
                check_models(res, bg, out, sigs, fs, f_range, n0, n1)

    # ---- probes ----------------------------------------------------------------------
    if n0 != n1:
        res.stats['probe.n0_ne_n1'] += 1
    if n0 == 1 or n1 == 1:
        res.stats['probe.size1_dimension'] += 1
    optshape = 'object' if plan['entry'] == 'object' else (
        'none' if plan.get('options') is None else next(iter(plan['options'])))
    res.stats['probe.%s.%s' % (akey, optshape)] += 1
    if len(sim.pools) > 0 and axis == (0, 1):
        res.stats['probe.nested_2d_pool_path'] += 1
    if plan['entry'] == 'object':
        res.stats['probe.object_entry'] += 1
    if plan.get('prefit'):
        res.stats['probe.object_refit'] += 1
    if plan.get('from_thread'):
        res.stats['probe.called_from_helper_thread'] += 1
    if plan.get('alias_equal'):
        res.stats['probe.option_list_with_aliased_dicts'] += 1
    if plan['sim']['faults'].get('oversubscribe'):
        res.stats['fault.oversubscribe'] += 1
    res.stats['mode.' + sim.mode] += 1
    res.stats['pool_seam_hits'] += sim.seam_hits
    res.stats.update(sim.stats)
    res.sim_time = sum(sim.makespans) if sim.mode == 'timed' else 0.0
    res.steps = sim.steps
    res.inter_sig = digest_of((n0, n1), plan['axis'], optshape, sim.schedule_signature())
    res.nontrivial = (n0 != n1) or sim.stats.get('probe.completion_order_permuted', 0) > 0
    fps = fingerprint(out) if isinstance(out, (list, tuple)) else repr(type(out))
    res.digest = digest_of(sim.log, fps, res.vclass, res.signature)
    res.rdigest = digest_of(fps, res.vclass, res.signature)
    return res


def check_result(plan, res, out, refs, axis, n0, n1):
    import pandas as pd
    ok_shape = isinstance(out, (list, tuple)) and len(out) == n0 and all(
        isinstance(r, (list, tuple)) and len(r) == n1 for r in out)
    if not ok_shape:
        got = (len(out), [len(r) if hasattr(r, '__len__') else '?' for r in out]) \
            if isinstance(out, (list, tuple)) else type(out).__name__
        res.violate('shape-mismatch', 'nested-shape', 'expected nested list %dx%d, got %s' % (n0, n1, got))
        return
    for i in range(n0):
        for j in range(n1):
            if not isinstance(out[i][j], pd.DataFrame):
                res.violate('shape-mismatch', 'entry-type', 'entry [%d][%d] is %s'
                            % (i, j, type(out[i][j]).__name__))
                return
    if axis == (0, 1):
        for i in range(n0):
            for j in range(n1):
                if refs[i][j][0] != 'ok':
                    continue
                d = diff(out[i][j], refs[i][j][1])
                if d:
                    other = [(a, b) for a in range(n0) for b in range(n1) if (a, b) != (i, j)
                             and refs[a][b][0] == 'ok' and not diff(out[i][j], refs[a][b][1])]
                    if other:
                        res.violate('position-mismatch', 'permuted',
                                    'axis=(0,1), shape %dx%d: entry [%d][%d] holds the analysis of signal %s'
                                    % (n0, n1, i, j, list(other[0])))
                    else:
                        res.violate('position-mismatch', 'value',
                                    'axis=(0,1): entry [%d][%d] differs from compute_features(sigs[%d,%d]): %s'
                                    % (i, j, i, j, d))
                    return
                res.stats['entries_compared'] += 1
    else:
        n = n0 if axis == 0 else n1
        for k in range(n):
            if refs[k][0] != 'ok':
                continue
            got = list(out[k]) if axis == 0 else [out[i][k] for i in range(n0)]
            d = diff(got, refs[k][1])
            if d:
                other = [a for a in range(n) if a != k and refs[a][0] == 'ok' and not diff(got, refs[a][1])]
                what = 'row' if axis == 0 else 'column'
                if other:
                    res.violate('position-mismatch', 'permuted',
                                'axis=%d, shape %dx%d: %s %d holds the flattened-epoch analysis of slice %d'
                                % (axis, n0, n1, what, k, other[0]))
                else:
                    res.violate('position-mismatch', 'value',
                                'axis=%d: %s %d differs from the flattened-epoch analysis of its slice: %s'
                                % (axis, what, k, d))
                return
            res.stats['slices_compared'] += 1


def check_models(res, bg, out, sigs, fs, f_range, n0, n1):
    models = bg.models
    try:
        ok_shape = len(models) == n0 and all(len(r) == n1 for r in models)
    except Exception:
        ok_shape = False
    if not ok_shape or len(bg) != n0:
        res.violate('models-mismatch', 'shape', 'models does not have the nested shape %dx%d' % (n0, n1))
        return
    for i in range(n0):
        for j in range(n1):
            m = models[i][j]
            d = diff(m.df_features, out[i][j]) or diff(np.asarray(m.sig), sigs[i, j])
            if d:
                res.violate('models-mismatch', 'mirror',
                            'models[%d][%d] does not mirror df_features[%d][%d] / sigs[%d,%d]: %s'
                            % (i, j, i, j, i, j, d))
                return
            if m.fs != fs or tuple(m.f_range) != tuple(f_range) or m.burst_method != bg.burst_method \
                    or m.center_extrema != bg.center_extrema:
                res.violate('models-mismatch', 'settings', 'models[%d][%d] settings differ' % (i, j))
                return
    res.stats['models_checked'] += n0 * n1


def progress_violation(stats, min_attempts=10):
    for m in PROGRESS_KEYS:
        if stats.get('attempt.' + m, 0) >= min_attempts and stats.get('progress.' + m, 0) == 0:
            return ('no-progress', 'key=' + m,
                    'none of %d well-formed reference analyses for %r returned; the property is vacuous there'
                    % (stats['attempt.' + m], m), m)
    return None


def shrink(plan):
    simple = {'mode': 'fifo', 'bg_steps': 0, 'inq_cap': 64, 'cpu_count': 4, 'base_ms': 10.0, 'faults': {}}
    if plan['sim'] != simple:
        p = copy.deepcopy(plan)
        p['sim'] = simple
        yield p
        p = copy.deepcopy(plan)
        p['sim'] = dict(simple, mode='lifo')
        yield p
    n0, n1 = plan['shape']

    def drop(dim, k):
        p = copy.deepcopy(plan)
        if dim == 0:
            del p['sigs'][k]
            p['shape'] = [n0 - 1, n1]
        else:
            for row in p['sigs']:
                del row[k]
            p['shape'] = [n0, n1 - 1]
        opt = p.get('options') if p['entry'] == 'function' else None
        if opt and 'list2' in opt:
            if dim == 0:
                del opt['list2'][k]
            else:
                for row in opt['list2']:
                    del row[k]
        if opt and 'list1' in opt and ((dim == 0 and p['axis'] == 0) or (dim == 1 and p['axis'] == 1)):
            del opt['list1'][k]
        return p

    if n0 > 1:
        for k in range(n0):
            yield drop(0, k)
    if n1 > 1:
        for k in range(n1):
            yield drop(1, k)
    if plan['entry'] == 'function' and plan.get('options'):
        opt = plan['options']
        first = opt.get('shared') or (opt.get('list1') or [None])[0] or (opt.get('list2') or [[None]])[0][0]
        if 'shared' not in opt:
            p = copy.deepcopy(plan)
            p['options'] = {'shared': first}
            yield p
        else:
            p = copy.deepcopy(plan)
            p['options'] = None
            yield p
            for k in sorted(opt['shared']):
                p = copy.deepcopy(plan)
                del p['options']['shared'][k]
                yield p
    for key, val in (('n_jobs', 1), ('n_jobs', 2), ('progress', None), ('tqdm', 'absent'),
                     ('return_samples', True), ('prefit', False), ('alias_equal', False),
                     ('array_variant', None), ('positional', False), ('f_range_list', False),
                     ('fs_float', False), ('from_thread', False), ('precall3d', False), ('prefail', None)):
        if key in plan and plan[key] != val:
            p = copy.deepcopy(plan)
            p[key] = val
            yield p
    for c in simpler_sim_cfgs(plan['sim']):
        p = copy.deepcopy(plan)
        p['sim'] = c
        yield p
    for i, row in enumerate(plan['sigs']):
        for j, s in enumerate(row):
            if len(s['comps']) > 1:
                p = copy.deepcopy(plan)
                p['sigs'][i][j]['comps'] = s['comps'][:1]
                yield p
            for key, val in (('am', None), ('noise_sd', 0.0), ('dc', 0)):
                if s.get(key):
                    p = copy.deepcopy(plan)
                    p['sigs'][i][j][key] = val
                    yield p


def sample_view(plan, res):
    return {'shape': plan['shape'], 'T': plan['band']['T'], 'fs': plan['band']['fs'],
            'f_range': plan['band']['f_range'], 'axis': plan['axis'], 'entry': plan['entry'],
            'options': plan.get('options') if plan['entry'] == 'function' else plan.get('ctor'),
            'n_jobs': plan['n_jobs'], 'progress': plan['progress'], 'sim': plan['sim'],
            'simulator_steps': res.steps}


def describe(plan):
    return '\n'.join([
        '  plan: 3-D array %s x %d samples, fs=%s, f_range=%s, axis=%s, entry=%s, n_jobs=%s'
        % (plan['shape'], plan['band']['T'], plan['band']['fs'], plan['band']['f_range'],
           plan['axis'], plan['entry'], plan['n_jobs']),
        '  options: %s' % (plan.get('options') if plan['entry'] == 'function' else plan.get('ctor')),
        '  simulator: %s' % plan['sim']])
