"""Self-tests of the simulator itself (not property checks)."""
import sys
import time


def setup():
    """setup_cmd: nothing to build; verify that everything the checks need imports offline."""
    from . import core
    byc = core.import_sut()
    import numpy, pandas, scipy, neurodsp, matplotlib  # noqa: F401
    from . import simpool, c11  # noqa: F401
    print('setup ok: bycycle from %s; numpy %s pandas %s' % (byc.__file__, numpy.__version__,
                                                           pandas.__version__), file=sys.stderr)
    return 0


def main(argv):
    name = argv[0] if argv else 'setup'
    fn = globals().get(name.replace('-', '_'))
    if fn is None:
        print('unknown selftest %r' % name, file=sys.stderr)
        return 2
    return fn(*argv[1:])


# ---------------------------------------------------------------------------------------
# determinism: same seed -> same event-log digest, across runs, worker counts, hash seeds

PROPS = ('C11', 'C12', 'C14', 'C15')


def _digest_chunk(args):
    from . import core
    name, seed, idxs = args
    prop = core.load_prop(name)
    out = []
    for i in idxs:
        r = core.run_index(prop, seed, i)
        out.append((i, r.digest, r.vclass, bool(r.error)))
    return out


def _digests(n, workers, seed=0):
    import concurrent.futures
    import multiprocessing
    from . import core
    core.import_sut()
    out = {}
    ctx = multiprocessing.get_context('fork')
    with concurrent.futures.ProcessPoolExecutor(max_workers=workers, mp_context=ctx) as ex:
        jobs = []
        for p in PROPS:
            for i in range(0, n, 8):
                jobs.append((p, ex.submit(_digest_chunk, (p, seed, list(range(i, min(n, i + 8)))))))
        for p, f in jobs:
            for i, d, v, e in f.result(timeout=1800):
                out['%s/%d' % (p, i)] = [d, v, e]
    return out


def digests(n='64', workers='16', seed='0'):
    import json
    print(json.dumps(_digests(int(n), int(workers), int(seed)), sort_keys=True))
    return 0


def determinism(n='128'):
    """Each run seed executed at 16 and at 4 harness workers in this interpreter, and once
    more in a fresh interpreter under another PYTHONHASHSEED with 7 workers; the event-log
    digests must be identical."""
    import json
    import os
    import subprocess
    from . import core
    n = int(n)
    a = _digests(n, 16)
    b = _digests(n, 4)
    env = dict(os.environ)
    env['VERIF_HASHSEED'] = '12345'
    env.pop('PYTHONHASHSEED', None)
    p = subprocess.run([sys.executable, os.path.join(core.VERIF, 'run.py'), 'selftest', 'digests',
                        str(n), '7'], capture_output=True, text=True, env=env, timeout=3600)
    if p.returncode != 0:
        print(p.stderr[-2000:], file=sys.stderr)
        return 2
    c = json.loads(p.stdout)
    bad = [k for k in a if not (a[k] == b.get(k) == c.get(k))]
    errs = [k for k in a if a[k][2]]
    print('determinism: %d runs x 3 executions (16 workers, 4 workers, fresh interpreter with '
          'PYTHONHASHSEED=12345 and 7 workers): %d digest mismatches, %d harness errors'
          % (len(a), len(bad), len(errs)), file=sys.stderr)
    for k in bad[:10]:
        print('  MISMATCH %s: %s / %s / %s' % (k, a[k], b.get(k), c.get(k)), file=sys.stderr)
    return 0 if not bad and not errs else 2


def mutants(which='all', only=None):
    """Sensitivity (breaking rewrites must be caught and replay) and no-false-alarm
    (behaviour-preserving rewrites must stay silent) on scratch copies under /dev/shm."""
    from . import mutants as m
    return m.main(which, only)


# ---------------------------------------------------------------------------------------
# SimPool fidelity against the real multiprocessing.Pool (toy functions)

def _sq(x):
    return x * x


def _add(a, b):
    return a + b


def _boom(x):
    if x == 3:
        raise KeyError('three')
    return x


def _gen_fail():
    yield 1
    yield 2
    raise RuntimeError('iterable failed')


def _unpicklable(x):
    return lambda: x


_SIDE = []
_FLAG = {'v': 0}


def _side_effect(x):
    _SIDE.append(x)
    return (x, _FLAG['v'])


def _isolation_script(Pool):
    """Process-boundary semantics: a worker's writes to module state are invisible to the
    parent; the parent's writes after pool creation are invisible to the workers."""
    del _SIDE[:]
    _FLAG['v'] = 1
    with Pool(2) as pool:
        _FLAG['v'] = 2                       # after the fork: workers still see 1
        seen = sorted(pool.map(_side_effect, range(4)))
    out = (list(_SIDE), seen)
    _FLAG['v'] = 0
    return out


def _nested_pool_sum(n):
    """Creates a pool of its own (allowed in non-daemonic workers only)."""
    import multiprocessing
    with multiprocessing.Pool(2) as inner:
        return sum(inner.map(_sq, range(n)))


def _pool_script(Pool):
    """The same script against any Pool implementation -> normalised observations."""
    obs = {}
    with Pool(3) as pool:
        obs['imap'] = list(pool.imap(_sq, range(10)))
        obs['imap_chunks'] = list(pool.imap(_sq, range(10), chunksize=3))
        obs['imap_unordered'] = sorted(pool.imap_unordered(_sq, range(10)))
        obs['map'] = pool.map(_sq, range(7))
        obs['map_chunks'] = pool.map(_sq, range(7), chunksize=2)
        obs['map_empty'] = pool.map(_sq, [])
        obs['starmap'] = pool.starmap(_add, [(1, 2), (3, 4), (5, 6)])
        obs['apply'] = pool.apply(_add, (2, 3))
        obs['apply_async'] = pool.apply_async(_sq, (9,)).get()
        r = pool.map_async(_sq, range(5))
        r.wait()
        obs['map_async'] = (r.ready(), r.successful(), r.get())
        acc = []
        r = pool.apply_async(_sq, (4,), callback=acc.append)
        r.get()
        obs['callback'] = acc
        it = pool.imap(_boom, range(6))
        got = []
        try:
            for v in it:
                got.append(v)
        except KeyError as e:
            got.append(('KeyError', e.args))
        obs['imap_exception_position'] = got
        try:
            pool.map(_boom, range(6))
            obs['map_exception'] = 'none'
        except KeyError as e:
            obs['map_exception'] = ('KeyError', e.args)
        got = []
        try:
            for v in pool.imap(_sq, _gen_fail()):
                got.append(v)
        except RuntimeError as e:
            got.append(('RuntimeError', e.args))
        obs['failing_iterable'] = got
        try:
            pool.apply(_unpicklable, (1,))
            obs['unpicklable_result'] = 'none'
        except Exception as e:
            obs['unpicklable_result'] = type(e).__name__
        it = pool.imap(_sq, range(4))
        obs['next_then_rest'] = (next(it), list(it))
        try:
            obs['nested_pool_in_pool_worker'] = pool.apply(_nested_pool_sum, (4,))
        except AssertionError as e:
            obs['nested_pool_in_pool_worker'] = str(e)
        rs = [pool.apply_async(_sq, (i,)) for i in range(5)]
        n_polls = 0
        while not all(r.ready() for r in rs):         # polling caller
            n_polls += 1
            if n_polls > 100000:
                break
            time.sleep(0.0005)
        obs['polling_ready'] = (n_polls <= 100000, [r.get() for r in rs])
        import queue
        q = queue.Queue()
        for i in range(5):
            pool.apply_async(_sq, (i,), callback=lambda r, i=i: q.put((i, r)))
        got_q = [None] * 5
        for _ in range(5):                              # results collected through a queue
            i, r = q.get()
            got_q[i] = r
        obs['queue_collect'] = got_q
    try:
        pool.imap(_sq, [1])
        obs['use_after_exit'] = 'none'
    except ValueError as e:
        obs['use_after_exit'] = str(e)
    import threading
    outs = {}

    def _own_pool(k):
        with Pool(2) as inner:
            outs[k] = inner.map(_sq, range(k, k + 4))
    ths = [threading.Thread(target=_own_pool, args=(k,)) for k in (0, 10, 20)]
    for t in ths:
        t.start()
    for t in ths:
        t.join()
    obs['threads_with_private_pools'] = [outs.get(k) for k in (0, 10, 20)]
    for bad in (0, -1):
        try:
            Pool(bad)
            obs['processes_%d' % bad] = 'none'
        except ValueError as e:
            obs['processes_%d' % bad] = str(e)
    p = Pool(2)
    r = p.map_async(_sq, range(6))
    p.close()
    p.join()
    obs['close_join'] = r.get()
    return obs


def _exec_script(mod):
    """concurrent.futures API script -> normalised observations (mod = concurrent.futures)."""
    obs = {}
    with mod.ProcessPoolExecutor(max_workers=3) as ex:
        obs['map'] = list(ex.map(_sq, range(8)))
        obs['map_chunks'] = list(ex.map(_sq, range(8), chunksize=3))
        futs = [ex.submit(_sq, i) for i in range(6)]
        obs['results_in_submission_order'] = [f.result() for f in futs]
        futs = [ex.submit(_sq, i) for i in range(6)]
        obs['as_completed_multiset'] = sorted(f.result() for f in mod.as_completed(futs))
        futs = [ex.submit(_sq, i) for i in range(5)]
        done, pending = mod.wait(futs)
        obs['wait_all'] = (len(done), len(pending), sorted(f.result() for f in done))
        f = ex.submit(_boom, 3)
        obs['exception'] = (type(f.exception()).__name__, f.exception().args)
        obs['nested_pool_in_executor_worker'] = ex.submit(_nested_pool_sum, 4).result()
        try:
            list(ex.map(_boom, range(6)))
            obs['map_exception'] = 'none'
        except KeyError as e:
            obs['map_exception'] = e.args
        acc = []
        fs_ = [ex.submit(_sq, i) for i in range(4)]
        n_polls = 0
        while not all(f.done() for f in fs_):          # polling caller
            n_polls += 1
            if n_polls > 100000:
                break
            time.sleep(0.0005)
        obs['polling_done'] = (n_polls <= 100000, [f.result() for f in fs_])
        f = ex.submit(_sq, 5)
        f.add_done_callback(lambda fu: acc.append(fu.result()))
        f.result()
        mod.wait([f])
        obs['done_callback'] = acc
    try:
        ex.submit(_sq, 1)
        obs['submit_after_shutdown'] = 'none'
    except RuntimeError:
        obs['submit_after_shutdown'] = 'RuntimeError'
    with mod.ThreadPoolExecutor(max_workers=2) as ex:
        obs['thread_map'] = list(ex.map(_sq, range(5)))
    import asyncio

    async def _gather():
        loop = asyncio.get_running_loop()
        with mod.ProcessPoolExecutor(max_workers=2) as ex2:
            return await asyncio.gather(*[loop.run_in_executor(ex2, _sq, i) for i in range(6)])
    obs['asyncio_run_in_executor'] = asyncio.run(_gather())
    return obs


def pool(n_seeds='40'):
    """Every public Pool method on toy functions: SimPool (all modes, several seeds) must give
    the observations the real Pool gives (values for ordered APIs, multisets for unordered,
    exception propagation position, chunksize, processes < 1, use after exit, close/join)."""
    import multiprocessing
    from .rng import Tape
    from .simpool import Sim, Installed, MODES
    real = _pool_script(multiprocessing.get_context('fork').Pool)
    real_iso = _isolation_script(multiprocessing.get_context('fork').Pool)
    import concurrent.futures
    real_exec = _exec_script(concurrent.futures)
    bad = 0
    n = 0
    for mode in MODES:
        for seed in range(int(n_seeds)):
            faults = {}
            if seed % 2:
                faults = {'stall': {'p': 25, 'ms': [50], 'steps': [4]}, 'idle_recycle': {'p': 20},
                          'delay': {'p': 25, 'mult': [5, 20]}, 'result_latency': {'ms': [0, 20]},
                          'tiny_inqueue': 1}
            if seed % 3 == 0:
                # a replacement worker is forked later and legitimately sees later parent state
                faults = {k: v for k, v in faults.items() if k != 'idle_recycle'}
            sim = Sim({'mode': mode, 'bg_steps': seed % 4, 'faults': faults,
                       'workers': 'forked' if seed % 3 == 0 else 'inproc',
                       'pct_changes': [3, 9, 20]}, Tape(seed))
            with Installed(sim):
                got = _pool_script(multiprocessing.Pool)
                iso = _isolation_script(multiprocessing.Pool) if seed % 3 == 0 else real_iso
                got_exec = _exec_script(concurrent.futures)
            sim.finish_run()
            if got_exec != real_exec:
                bad += 1
                for k in real_exec:
                    if real_exec[k] != got_exec.get(k):
                        print('  MISMATCH mode=%s seed=%d executor %s: real=%r sim=%r'
                              % (mode, seed, k, real_exec[k], got_exec.get(k)), file=sys.stderr)
            if iso != real_iso:
                bad += 1
                print('  MISMATCH mode=%s seed=%d worker isolation: real=%r sim=%r' % (mode, seed, real_iso, iso),
                      file=sys.stderr)
            n += 1
            if got != real:
                bad += 1
                for k in real:
                    if real[k] != got.get(k):
                        print('  MISMATCH mode=%s seed=%d %s: real=%r sim=%r' % (mode, seed, k, real[k], got.get(k)),
                              file=sys.stderr)
    print('pool fidelity: %d simulated executions of the API script compared with the real Pool, '
          '%d mismatching' % (n, bad), file=sys.stderr)
    return 0 if bad == 0 else 2
