"""Self-tests of the simulator itself (not property checks)."""
import sys


def setup():
    """setup_cmd: nothing to build; verify that everything the checks need imports offline."""
    from . import core
    byc = core.import_sut()
    import numpy, pandas, scipy, neurodsp, matplotlib  # noqa: F401
    from . import simpool, c11  # noqa: F401
    print('setup ok: bycycle from %s; numpy %s pandas %s' % (byc.__file__, numpy.__version__,
                                                           pandas.__version__), file=sys.stderr)
    return 0


def main(argv):
    name = argv[0] if argv else 'setup'
    fn = globals().get(name.replace('-', '_'))
    if fn is None:
        print('unknown selftest %r' % name, file=sys.stderr)
        return 2
    return fn(*argv[1:])
