"""Command line: check <ID> <quick|thorough> | replay <file> | selftest <name>."""
import os
import sys

TIERS = {
    # property: tier -> (runs, wall budget seconds); a batch stops at whichever comes first
    'C11': {'quick': (1200, 150), 'thorough': (60000, 1500)},
    'C12': {'quick': (900, 150), 'thorough': (60000, 1500)},
    'C14': {'quick': (1000, 150), 'thorough': (40000, 1500)},
    'C15': {'quick': (600, 200), 'thorough': (20000, 1500)},
}

ENV = {'PYTHONHASHSEED': '0', 'OMP_NUM_THREADS': '1', 'OPENBLAS_NUM_THREADS': '1',
       'MKL_NUM_THREADS': '1', 'NUMEXPR_NUM_THREADS': '1', 'DUCC0_NUM_THREADS': '1', 'MPLBACKEND': 'Agg',
       'PYTHONDONTWRITEBYTECODE': '1'}


def reexec_if_needed():
    want = dict(ENV)
    if 'VERIF_HASHSEED' in os.environ:          # determinism self-test runs under another hash seed
        want['PYTHONHASHSEED'] = os.environ['VERIF_HASHSEED']
    if all(os.environ.get(k) == v for k, v in want.items()):
        return
    env = dict(os.environ)
    env.update(want)
    os.execve(sys.executable, [sys.executable] + sys.argv, env)


def main(argv=None):
    reexec_if_needed()
    argv = list(sys.argv[1:] if argv is None else argv)
    if not argv:
        print(__doc__, file=sys.stderr)
        return 2
    cmd = argv[0]
    from . import core
    if cmd == 'check':
        prop = argv[1].upper()
        tier = argv[2] if len(argv) > 2 else os.environ.get('VERIF_TIER', 'quick')
        seed = int(os.environ.get('VERIF_SEED', '0'))
        runs, budget = TIERS[prop][tier]
        os.environ['VERIF_TIER'] = tier
        runs = int(os.environ.get('VERIF_RUNS', runs))
        budget = int(os.environ.get('VERIF_BUDGET_S', budget))
        return core.run_batch(prop, tier, seed, runs, budget)
    if cmd == 'replay':
        core.import_sut()
        same, res = core.replay_file(argv[1])
        if res.error:
            return 2
        if res.vclass or same:
            import json
            doc = json.load(open(argv[1]))
            print('VIOLATION property=%s replay=%s' % (doc['property'], argv[1]))
            return 1
        print('replay did not reproduce a violation', file=sys.stderr)
        return 0
    if cmd == 'selftest':
        from . import selftest
        return selftest.main(argv[1:])
    print('unknown command %r' % cmd, file=sys.stderr)
    return 2
