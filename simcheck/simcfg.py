"""Swarm-style generation of simulator configurations (drawn from the fault stream)."""

from .simpool import MODES


def gen_sim_cfg(frng, n_tasks, fault_free=False):
    mode = frng.choices(MODES, weights=(35, 25, 15, 15, 10))[0]
    cfg = {'mode': mode,
           'bg_steps': frng.choice((0, 0, 1, 2, 3)),
           'inq_cap': frng.choice((2, 4, 8, 64)),
           'cpu_count': 4,
           'base_ms': frng.choice((5.0, 10.0, 20.0)),
           # simulated workers run in-process, or as real forked processes parked on a pipe
           'workers': 'forked' if frng.random() < 0.3 else 'inproc',
           'faults': {}}
    if mode == 'pct':
        horizon = max(4, 4 * n_tasks)
        cfg['pct_changes'] = sorted(frng.sample(range(1, horizon + 1), min(horizon, frng.randint(1, 3))))
    if fault_free:
        return cfg
    f = cfg['faults']
    # each kind is enabled for a random subset of runs; rates keep most runs progressing
    if frng.random() < 0.35:
        f['delay'] = {'p': frng.choice((10, 25, 50)), 'mult': [2, 3, 5, 10, 20, 50]}
    if frng.random() < 0.35:
        f['stall'] = {'p': frng.choice((10, 25)), 'ms': [20, 50, 200, 1000], 'steps': [2, 4, 8, 16]}
    if frng.random() < 0.3:
        f['slow_worker'] = [frng.choice((1, 1, 2, 5, 20, 50)) for _ in range(4)]
    if frng.random() < 0.25:
        f['start_skew'] = [frng.choice((0, 5, 30, 100)) for _ in range(4)]
    if frng.random() < 0.25:
        f['tiny_inqueue'] = 1
    if frng.random() < 0.3:
        f['result_latency'] = {'ms': [0, 0, 5, 20, 100]}
    if frng.random() < 0.2:
        f['idle_recycle'] = {'p': frng.choice((10, 30))}
    if frng.random() < 0.3:
        f['cpu_count'] = True
        cfg['cpu_count'] = frng.randint(1, 16)
    return cfg


def simpler_sim_cfgs(cfg):
    """Shrink candidates: drop fault kinds one by one, then fall back to the fifo baseline."""
    for k in sorted(cfg.get('faults', {})):
        c = dict(cfg)
        c['faults'] = {kk: v for kk, v in cfg['faults'].items() if kk != k}
        if k == 'cpu_count':
            c['cpu_count'] = 4
        yield c
    if cfg.get('bg_steps'):
        c = dict(cfg)
        c['bg_steps'] = 0
        yield c
    if cfg.get('workers') == 'forked':
        c = dict(cfg)
        c['workers'] = 'inproc'
        yield c
    if cfg.get('mode') != 'fifo':
        c = dict(cfg)
        c['mode'] = 'fifo'
        c.pop('pct_changes', None)
        yield c
    if cfg.get('mode') not in ('fifo', 'lifo'):
        c = dict(cfg)
        c['mode'] = 'lifo'
        c.pop('pct_changes', None)
        yield c
