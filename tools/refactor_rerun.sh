#!/bin/sh
# re-run, on the current version of the checks, every kept preserving refactoring against the checks
# its code can influence most (its own property and the neighbouring one); test-suite comparison kept
cd /verif
for d in seeded/r-*/; do
  id=$(basename $d)
  n=${id##*-}
  # the sixth round was run in full on the final checks already
  case $id in r-c12-*) [ $n -ge 22 ] && continue ;; *) [ $n -ge 16 ] && continue ;; esac
  case $id in
    r-c11-*|r-c12-*) props=C11,C12 ;;
    r-c14-*) props=C14,C11 ;;
    r-c15-*) props=C15 ;;
  esac
  note=$(/venv/bin/python -c "import json;print(json.load(open('$d/meta.json')).get('note','')[:500])")
  REFACTOR_SKIP_TESTS=1 REFACTOR_PROPS=$props /venv/bin/python tools/refactor_check.py $id $d/patch.diff "$note" 2>&1 | tail -3
done
