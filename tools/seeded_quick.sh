#!/bin/sh
# fast re-run of the kept breaking changes on the current checks: apply in a scratch worktree, run the
# quick check of the property, print whether it was caught (no test-suite run, meta.json untouched)
cd /verif
for d in seeded/s-*/; do
  id=$(basename $d)
  prop=$(/venv/bin/python -c "import json;print(json.load(open('$d/meta.json'))['property'])")
  wt=/tmp/wt-sq-$id
  git -C /repo worktree add -q --detach $wt HEAD || continue
  if git -C $wt apply /verif/$d/patch.diff; then
    out=$(VERIF_REPO=$wt VERIF_OUT=$wt/_out VERIF_EVIDENCE_DIR=$wt/_ev ./check $prop quick 2>&1)
    rc=$?
    n=$(echo "$out" | grep -c "^VIOLATION property=$prop")
    echo "$id $prop exit=$rc violation_lines=$n $(echo "$out" | grep '^violation class=' | head -1 | cut -c1-110)"
  else
    echo "$id patch does not apply"
  fi
  git -C /repo worktree remove --force $wt; rm -rf $wt
done
