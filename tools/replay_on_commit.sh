#!/bin/sh
# usage: replay_on_commit.sh <commit of /repo> <replay file>
# Replays a recorded finding against a scratch worktree of /repo at an older commit (removed afterwards).
wt=/tmp/wt-replay-$$
git -C /repo worktree add -q --detach $wt "$1" || exit 2
VERIF_REPO=$wt /verif/check replay "$2"; rc=$?
git -C /repo worktree remove --force $wt
exit $rc
