import json
NA = {
 'C01': 'pure function of (signal, options): segmentation validity has no schedule, clock, fault or history for a simulator to own; generating inputs would be property-based testing, not deterministic simulation',
 'C02': 'find_extrema is array-in/array-out (filter, sign changes, argmax); nothing to schedule or fault',
 'C03': 'find_zerox is pure index arithmetic on (sig, peaks, troughs)',
 'C04': 'shape features are arithmetic on the sample columns and the signal; pure function',
 'C05': 'burst features are arithmetic/rank functions of one table; pure function',
 'C06': 'detect_bursts_cycles is a pure table->labels map; threshold monotonicity relates two pure calls',
 'C07': 'per call, burst fraction and min_n_cycles routing are functions of the arguments; the history-dependent facet (stale min_n_cycles between calls) is decided under C14/C15',
 'C08': 'check_min_burst_cycles maps a boolean array to a boolean array; "every array up to a bound" is exhaustive enumeration (model checking), not simulation',
 'C09': 'metamorphic relation between two pure calls on sig / -sig; no schedule or fault',
 'C10': 'metamorphic relation (scale / unit covariance) between two pure calls; no schedule or fault',
 'C13': 'compute_features_2d(axis=None) and epoch_df never open the pool (straight-line code); the partition of cycles into epochs depends only on the input',
 'C16': 'recompute_edges is a pure table->table function; only its "input table untouched" clause has a history reading and that is exercised by C15',
 'C17': 'extrema_interpolated_phase is interpolation over given indices; pure function',
 'C18': 'limit_df / limit_signal / split / drop / flatten are selections and concatenations of their arguments; pure functions',
 'C19': 'acceptance/rejection is a finite decision table over shape x axis x list-shape and scalar ranges; deciding it means enumerating a grid, not simulating',
 'C20': 'each plot is a rendering of the table, signal and limits it is given; Agg output is a function of those arguments',
}
import sys
claimed = sys.argv[1:]
pending = {'C12','C14','C15'} - set(claimed)
checks=[]
texts = {
 'C11': ('seeded deterministic simulation of the process pool (SimPool: real stdlib Pool logic, simulated workers/pipes/threads), seeded search over worker schedules and delay/stall/reorder faults; oracle = per-row sequential analysis', '3',
         'Exploration: many seeded simulated executions of compute_features_2d(axis=0)/BycycleGroup.fit under adversarial worker schedules; each result list is compared exactly, position by position, with compute_features on the row alone. Sampling, not proof; the right level because the property fails only when completion order, pairing and options line up, which is what the schedule search explores.'),
 'C12': ('same simulated pool, 3-D workloads over the three axis modes and shared / 1-D / 2-D option lists; oracle = per-signal and per-slice sequential analysis', '4',
         'Exploration: seeded simulated executions of compute_features_3d / BycycleGroup.fit on 3-D arrays with n0 != n1 and size-1 dimensions under seeded schedules; every entry [i][j] compared exactly with the analysis of its own signal / slice.'),
 'C14': ('seeded operation-and-fault histories (fit / recompute_edges / load / edits, natural failures and injected interrupts) on one object, refinement against a stateless reference model; group fits on the simulated pool', '5',
         'Exploration: seeded histories on one Bycycle / BycycleGroup object, checked after every successful operation against a reference model that holds only user-set values and calls the functional API on fresh copies.'),
 'C15': ('seeded API-call sessions over a pool of shared argument objects, sequential and baton-interleaved caller sessions, interrupt faults at call seams; oracle = pure reference interpreter + argument fingerprints + repeat pass', '6',
         'Exploration: seeded sessions of public API calls that draw their arguments by reference from one shared pool; after each call every argument fingerprint must be pristine and each result must equal a pure interpreter\'s result on fresh copies.'),
}
for pid in claimed:
    tech, sec, text = texts[pid]
    checks.append({
        'property_id': pid,
        'quick_cmd': './check %s quick' % pid,
        'thorough_cmd': './check %s thorough' % pid,
        'evidence_file': '/verif/evidence/%s.json' % pid,
        'replay_cmd_template': './check replay {path}',
        'engine': 'simcheck',
        'level_claimed': {'category': 'exploration', 'text': text, 'design_ref': 'DESIGN.md section ' + sec},
        'level_note': 'Trusted base: the SimPool model of multiprocessing.Pool transport/scheduling (ordering and collection logic is the real stdlib code; conformance self-test against the real Pool), the reference model in simcheck/ref.py, exact table comparison in simcheck/oracle.py. A clean batch is evidence, not proof.',
        'technique': 'deterministic simulation with fault injection: ' + tech,
    })
na = [{'property_id': k, 'reason': v} for k, v in sorted(NA.items())]
for p in sorted(pending):
    na.append({'property_id': p, 'reason': 'simulation target (see DESIGN.md); check under construction in this commit, not yet claimed'})
na.sort(key=lambda d: d['property_id'])
m = {
 'version': 1,
 'setup_cmd': '/venv/bin/python /verif/run.py selftest setup',
 'hooks': {'guard': 'BYCYCLE_VERIF', 'enable': 'no hooks: all seams are module attributes patched by the harness at run time (bycycle.group.features.Pool / cpu_count, call seams)', 'baseline_off_cmd': 'cd /repo && /venv/bin/python -m pytest -ra -q -p no:cacheprovider --timeout=900 --continue-on-collection-errors', 'source_commits': [], 'add_only': True},
 'engines': [{'name': 'simcheck', 'path': '/verif/simcheck', 'serves_properties': claimed, 'kind_free_text': 'deterministic simulator (seeded scheduler + fault injector) written for this repository: SimPool (real stdlib Pool logic over simulated or forked-and-parked workers), SimExecutor (concurrent.futures), call seams and line-granularity pre-emption, baton-passing caller sessions, pristine-process reference models, ddmin minimiser, replay files'}],
 'checks': checks,
 'not_applicable': na,
 'notes': 'Checks run /repo\'s working tree (VERIF_REPO overrides). Exit 0 clean, 1 + VIOLATION line on a violation, 2 on a harness error. VERIF_SEED selects the seed; VERIF_RUNS / VERIF_BUDGET_S override the tier bounds (a batch stops at whichever comes first). Every execution runs in a fresh fork of a process that never executed bycycle code; every reference result is computed in a fork of a zygote created before the first call into bycycle. Self-tests of the machinery: ./check selftest determinism | pool | mutants breaking | mutants preserving (see DESIGN.md 2.7). Seeded changes from independent sub-agents with their confirmation records: /verif/seeded/. Findings on the unchanged tree (all repaired by fix: commits in /repo) with their replay files: /verif/known_findings.json, /verif/findings/.',
}
json.dump(m, open('/verif/MANIFEST.json','w'), indent=1)
