#!/venv/bin/python
"""Confirm a seeded change (from a sub-agent) in a scratch worktree and run the checks against it.

usage: seeded.py <id> <property> <dir with patch.diff + demo.py [+ README.md]> [--keep]

Steps (all in a scratch git worktree of /repo under /tmp, removed afterwards):
  1. demo.py passes on the unchanged tree
  2. patch applies; the test suite gives the same passed/failed sets as on the unchanged tree
  3. demo.py fails with the change
  4. each of our quick checks is run with VERIF_REPO pointing at the changed worktree
Writes /verif/seeded/<id>/{patch.diff, demo.py, meta.json}.
"""
import json
import os
import re
import shutil
import subprocess
import sys

PY = '/venv/bin/python'
VERIF = '/verif'


def sh(cmd, cwd=None, env=None, timeout=1800):
    p = subprocess.run(cmd, shell=True, cwd=cwd, env=env, capture_output=True, text=True, timeout=timeout)
    return p.returncode, p.stdout + p.stderr


def run_tests(wt):
    rc, out = sh('%s -m pytest -q -p no:cacheprovider --timeout=900 --continue-on-collection-errors -rA 2>&1 | '
                 'grep -E "^(PASSED|FAILED|ERROR|XFAIL|XPASS)" | sort' % PY, cwd=wt,
                 env=dict(os.environ, PYTHONPATH=wt, OPENBLAS_NUM_THREADS='1', OMP_NUM_THREADS='1', MKL_NUM_THREADS='1'))
    return out


def main():
    mid, prop, src = sys.argv[1:4]
    props = sys.argv[4].split(',') if len(sys.argv) > 4 and not sys.argv[4].startswith('--') else [prop]
    wt = '/tmp/wt-verify-%s' % mid
    sh('git -C /repo worktree remove --force %s' % wt)
    rc, out = sh('git -C /repo worktree add -q --detach %s HEAD' % wt)
    assert rc == 0, out
    meta = {'id': mid, 'property': prop, 'source': 'independent sub-agent given only the property record and a scratch worktree'}
    try:
        os.makedirs(wt + '/_mutant', exist_ok=True)
        shutil.copy(os.path.join(src, 'demo.py'), wt + '/_mutant/demo.py')
        shutil.copy(os.path.join(src, 'patch.diff'), wt + '/_mutant/patch.diff')
        env = dict(os.environ, PYTHONPATH=wt, MPLBACKEND='Agg')
        rc0, out0 = sh('%s _mutant/demo.py' % PY, cwd=wt, env=env)
        meta['demo_on_unchanged_tree_exit'] = rc0
        base = run_tests(wt)
        rc, out = sh('git apply _mutant/patch.diff', cwd=wt)
        meta['patch_applies'] = rc == 0
        assert rc == 0, out
        rc, out = sh('%s -c "import bycycle; print(bycycle.__file__)"' % PY, cwd=wt, env=env)
        assert wt in out, out
        mut = run_tests(wt)
        meta['tests_same_as_unchanged'] = base == mut
        meta['tests_passed'] = len(re.findall(r'^PASSED', mut, re.M))
        meta['tests_failed'] = sorted(re.findall(r'^(?:FAILED|ERROR) (\S+)', mut, re.M))
        rc1, out1 = sh('%s _mutant/demo.py' % PY, cwd=wt, env=env)
        meta['demo_with_change_exit'] = rc1
        meta['demo_with_change_tail'] = out1.strip().splitlines()[-1][:300] if out1.strip() else ''
        meta['confirmed'] = (rc0 == 0 and rc1 != 0 and base == mut)
        meta['checks'] = {}
        for p in props:
            e = dict(os.environ, VERIF_REPO=wt, VERIF_OUT=wt + '/_out', VERIF_EVIDENCE_DIR=wt + '/_ev')
            rc, out = sh('%s %s/run.py check %s quick' % (PY, VERIF, p), cwd=VERIF, env=e)
            viol = [ln for ln in out.splitlines() if ln.startswith('violation class=')]
            replay_ok = None
            if rc == 1 and 'VIOLATION' in out:
                path = re.search(r'replay=(\S+)', out).group(1)
                r2, o2 = sh('%s %s/run.py replay %s' % (PY, VERIF, path), cwd=VERIF, env=e)
                replay_ok = r2 == 1
            meta['checks'][p] = {'exit': rc, 'caught': rc == 1 and 'VIOLATION property=%s' % p in out,
                                 'replay_reproduces': replay_ok,
                                 'violations': [v[:300] for v in viol[:4]],
                                 'summary': out.strip().splitlines()[-1][:200] if out.strip() else ''}
        dst = os.path.join(VERIF, 'seeded', mid)
        os.makedirs(dst, exist_ok=True)
        if os.path.realpath(src) != os.path.realpath(dst):
            shutil.copy(os.path.join(src, 'patch.diff'), dst)
            shutil.copy(os.path.join(src, 'demo.py'), dst)
        if os.path.exists(os.path.join(src, 'README.md')):
            shutil.copy(os.path.join(src, 'README.md'), os.path.join(dst, 'NEEDS.md'))
        meta['ran'] = ['demo.py on unchanged worktree', 'git apply patch.diff', 'pytest (same command as the baseline) before/after',
                       'demo.py with change', './check <property> quick with VERIF_REPO=<worktree>', './check replay <file>']
        with open(os.path.join(dst, 'meta.json'), 'w') as f:
            json.dump(meta, f, indent=1)
        print(json.dumps(meta, indent=1))
    finally:
        sh('git -C /repo worktree remove --force %s' % wt)
        shutil.rmtree(wt, ignore_errors=True)


if __name__ == '__main__':
    main()
