#!/bin/sh
# re-run the check of every kept seeded change (sequentially); prints one line per change
cd /verif
for d in seeded/s-*/; do
  id=$(basename $d)
  prop=$(/venv/bin/python -c "import json;print(json.load(open('$d/meta.json'))['property'])")
  /venv/bin/python tools/seeded.py $id $prop /verif/seeded/$id > /tmp/seeded-$id.log 2>&1
  /venv/bin/python -c "
import json; m=json.load(open('/verif/seeded/$id/meta.json')); c=m['checks']['$prop']; print('$id', '$prop', 'confirmed=%s caught=%s replay=%s' % (m['confirmed'], c['caught'], c['replay_reproduces']), (c['violations'] or [''])[0][:140])"
done
