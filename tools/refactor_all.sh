#!/bin/sh
# re-run all four checks against every kept property-preserving refactoring; one line each
cd /verif
for d in seeded/r-*/; do
  id=$(basename $d)
  note=$(/venv/bin/python -c "import json;print(json.load(open('$d/meta.json')).get('note','')[:500])")
  /venv/bin/python tools/refactor_check.py $id $d/patch.diff "$note" 2>&1 | tail -3
done
