#!/venv/bin/python
"""Run all four quick checks against a behaviour-preserving refactoring (from a sub-agent).
usage: refactor_check.py <id> <patch file> [note]
Applies the patch in a scratch worktree of /repo under /tmp (removed afterwards), confirms the
test suite outcome is unchanged, runs the checks with VERIF_REPO=<worktree>; all must stay silent.
Writes /verif/seeded/<id>/{patch.diff, meta.json}."""
import json
import os
import re
import shutil
import subprocess
import sys

PY = '/venv/bin/python'


def sh(cmd, cwd=None, env=None, timeout=1500):
    try:
        p = subprocess.run(cmd, shell=True, cwd=cwd, env=env, capture_output=True, text=True, timeout=timeout)
        return p.returncode, p.stdout + p.stderr
    except subprocess.TimeoutExpired:
        return 124, 'timeout'


def tests(wt):
    rc, out = sh('%s -m pytest -q -p no:cacheprovider --timeout=600 --continue-on-collection-errors -rA 2>&1 | '
                 'grep -E "^(PASSED|FAILED|ERROR|XFAIL|XPASS)" | sort' % PY, cwd=wt, env=dict(os.environ, PYTHONPATH=wt, OPENBLAS_NUM_THREADS='1', OMP_NUM_THREADS='1', MKL_NUM_THREADS='1'))
    return out


def main():
    mid, patch = sys.argv[1:3]
    note = sys.argv[3] if len(sys.argv) > 3 else ''
    wt = '/tmp/wt-verify-%s' % mid
    sh('git -C /repo worktree remove --force %s' % wt)
    rc, out = sh('git -C /repo worktree add -q --detach %s HEAD' % wt)
    assert rc == 0, out
    meta = {'id': mid, 'kind': 'behaviour-preserving refactoring (the property still holds); every check must stay silent',
            'source': 'independent sub-agent given only the property record and a scratch worktree', 'note': note}
    # re-runs on a later version of the checks: REFACTOR_SKIP_TESTS=1 keeps the recorded test-suite
    # comparison (patch and /repo are unchanged), REFACTOR_PROPS=C11,C12 re-runs only those checks
    old_meta = {}
    if os.path.exists('/verif/seeded/%s/meta.json' % mid):
        old_meta = json.load(open('/verif/seeded/%s/meta.json' % mid))
    skip_tests = os.environ.get('REFACTOR_SKIP_TESTS') == '1' and 'tests_same_as_unchanged' in old_meta
    props = tuple(os.environ.get('REFACTOR_PROPS', 'C11,C12,C14,C15').split(','))
    try:
        base = None if skip_tests else tests(wt)
        rc, out = sh('git apply %s' % os.path.abspath(patch), cwd=wt)
        meta['patch_applies'] = rc == 0
        assert rc == 0, out
        meta['tests_same_as_unchanged'] = old_meta['tests_same_as_unchanged'] if skip_tests else tests(wt) == base
        meta['checks'] = dict(old_meta.get('checks', {})) if props != ('C11', 'C12', 'C14', 'C15') else {}
        for p in props:
            e = dict(os.environ, VERIF_REPO=wt, VERIF_OUT=wt + '/_out', VERIF_EVIDENCE_DIR=wt + '/_ev')
            rc, out = sh('%s /verif/run.py check %s quick' % (PY, p), cwd='/verif', env=e)
            meta['checks'][p] = {'exit': rc, 'silent': rc == 0 and 'VIOLATION' not in out,
                                 'violations': [ln[:300] for ln in out.splitlines() if ln.startswith('violation class=')][:3],
                                 'summary': out.strip().splitlines()[-1][:200] if out.strip() else ''}
        dst = '/verif/seeded/%s' % mid
        os.makedirs(dst, exist_ok=True)
        if os.path.realpath(patch) != os.path.realpath(os.path.join(dst, 'patch.diff')):
            shutil.copy(patch, os.path.join(dst, 'patch.diff'))
        json.dump(meta, open(os.path.join(dst, 'meta.json'), 'w'), indent=1)
        print(mid, 'tests_same=%s' % meta['tests_same_as_unchanged'],
              {k: meta['checks'][k]['silent'] for k in props})
        for v in (meta['checks'][k] for k in props):
            for x in v['violations']:
                print('   ', x)
    finally:
        sh('git -C /repo worktree remove --force %s' % wt)
        shutil.rmtree(wt, ignore_errors=True)


if __name__ == '__main__':
    main()
