#!/bin/sh
# no-false-alarm sweep on the unchanged tree: every quick check under several VERIF_SEED values
# (evidence is written to a scratch dir so the committed evidence is not touched)
cd /verif
lo=${1:-1}; hi=${2:-8}
for seed in $(seq $lo $hi); do
  for p in C11 C12 C14 C15; do
    out=$(VERIF_SEED=$seed VERIF_EVIDENCE_DIR=/tmp/sweep-ev VERIF_OUT=/tmp/sweep-out ./check $p quick 2>&1)
    rc=$?
    echo "seed=$seed $p exit=$rc $(echo "$out" | tail -1)"
    if [ $rc -ne 0 ]; then echo "$out" | head -20; fi
  done
done
